"""Determinism self-test: same seed => same event-log digest, across processes,
worker counts and (verdict) another PYTHONHASHSEED in a fresh interpreter."""
from __future__ import annotations

import json
import os
import subprocess
import sys

from simcore import checks, driver, env

PROPS = ["C01", "C02", "C03", "C05", "C04", "C11", "C10", "C06", "C15", "C17", "C19"]
SLOW = {"C06": 6, "C15": 6, "C17": 6, "C07": 6, "C08": 6, "C09": 6, "C20": 6, "C04": 8}


def digests(prop, n, workers, seed=0):
    engines, props = checks.registry()
    engine = engines[props[prop][0]]
    driver.KNOWN = []
    results, _ = driver.sweep(engine, prop, "quick", seed, n, workers, stop_on_violation=False)
    out = {}
    for r in results:
        if r.get("harness_error"):
            out[str(r["index"])] = ["HARNESS", str(r["harness_error"])[-200:]]
        else:
            out[str(r["index"])] = [r.get("log_digest"), r.get("sig"), len(r.get("violations", []))]
    return out


def main(nseeds, arg=None):
    if arg and arg.startswith("emit:"):
        prop = arg.split(":")[1]
        n = int(arg.split(":")[2])
        print("DIGESTS " + json.dumps(digests(prop, n, 8)))
        return 0
    props = [arg] if arg else PROPS
    bad = 0
    for prop in props:
        n = min(nseeds, nseeds // SLOW.get(prop, 1) + 1)
        a = digests(prop, n, 16)
        b = digests(prop, n, 4)
        herr = [k for k, v in a.items() if v[0] == "HARNESS"]
        diff = [k for k in a if a[k] != b.get(k)]
        cp = subprocess.run([os.path.join(env.VERIF_HOME, "check"), "selftest-determinism", f"emit:{prop}:{n}"], capture_output=True, text=True, env=dict(os.environ, VERIF_PYTHONHASHSEED="12345"), timeout=3600)
        line = [l for l in cp.stdout.splitlines() if l.startswith("DIGESTS ")]
        c = json.loads(line[0][8:]) if line else {}
        vdiff = [k for k in a if k not in c or a[k][2:] != c[k][2:]]
        ddiff = [k for k in a if k in c and a[k][:2] != c[k][:2]]
        status = "ok" if not diff and not vdiff and not herr else "MISMATCH"
        print(f"determinism {prop}: {n} seeds x (16 workers, 4 workers, fresh interpreter hashseed 12345): same-hashseed digest mismatches {len(diff)}, verdict mismatches under other hashseed {len(vdiff)}, digest differences under other hashseed {len(ddiff)}, harness errors {len(herr)} -> {status}")
        if diff[:3]:
            print("   e.g. index", diff[:3], [a[k] for k in diff[:3]], [b.get(k) for k in diff[:3]])
        if status != "ok":
            bad += 1
        sys.stdout.flush()
    return 2 if bad else 0
