"""Sensitivity self-test: apply a change that breaks a property to a scratch copy of
/repo/src, point the harness at the copy (VERIF_REPO_SRC) and expect the owning quick
check to print a VIOLATION line.  Sources of changes:
  * the built-in catalogue below (textual replacements), and
  * /verif/seeded/<id>/patch.diff (changes written by independent sub-agents).
Usage: ./check selftest-mutants [all|catalogue|seeded|<id>]
"""
from __future__ import annotations

import json
import os
import shutil
import subprocess
import sys
import time

from simcore import env

REPO = "/repo"
OV = "src/metador_core/ih5/overlay.py"
RC = "src/metador_core/ih5/record.py"
MF = "src/metador_core/ih5/manifest.py"
WR = "src/metador_core/container/wrappers.py"
IF = "src/metador_core/container/interface.py"
HS = "src/metador_core/util/hashsums.py"
PU = "src/metador_core/packer/utils.py"

# (id, property, file, old, new)
CATALOGUE = [
    ("m-c01-stale-virtual", "C01", OV, "                    is_virtual[k] = _node_is_virtual(self._get_child_raw(k, i))\n\n", "\n"),
    ("m-c01-no-subst", "C01", OV, "        if len(self._files) > 1:\n            self._files[-1][path].attrs[SUBST_KEY] = h5py.Empty(None)", "        if False:\n            pass"),
    ("m-c01-no-del-marker", "C01", OV, "        if len(self._files) > 1:  # has patches? mark deleted (instead of real delete)\n            self._files[-1][path] = DEL_VALUE", "        if len(self._files) > 1 and any(path in f for f in self._files[:-1]) and path in self._files[-2]:\n            self._files[-1][path] = DEL_VALUE"),
    ("m-c01-attr-del-marker", "C01", OV, "            self._files[-1][self._gpath].attrs[key] = DEL_VALUE  # mark deleted", "            pass"),
    ("m-c02-create-patch-reopens-rw", "C02", RC, "        path = self._next_patch_filepath()\n        ub = IH5UserBlock.create(prev=self._ublock(-1))", "        path = self._next_patch_filepath()\n        _fn = self.__files__[-1].filename; self.__files__[-1].close(); _t = h5py.File(_fn, \"r+\"); _t.attrs[\"x\"] = 1; del _t.attrs[\"x\"]; _t.close(); self.__files__[-1] = h5py.File(_fn, \"r\")\n        ub = IH5UserBlock.create(prev=self._ublock(-1))"),
    ("m-c02-resave-all-ublocks", "C02", RC, "        self._ublocks[filepath].save(filepath)\n", "        self._ublocks[filepath].save(filepath)\n        for _f in self.__files__[:-1]:\n            _ub = self._ublocks[Path(_f.filename)].copy()\n            _ub.ub_exts = dict(_ub.ub_exts, touched=True)\n            _ub.save(_f.filename)\n"),
    ("m-c03-no-sort", "C03", RC, "        ret.__files__.sort(key=lambda f: ret._ublock(f).patch_index)", "        pass"),
    ("m-c03-x-truncates", "C03", RC, "            ret = self._create(path, truncate=(mode == \"w\"))", "            ret = self._create(path, truncate=(mode in (\"w\", \"x\")))"),
    ("m-c03-loose-find-files", "C03", RC, "            if re.match(f\"^{record.name}[^{cls._ALLOWED_NAME_CHARS}]\", p.name)", "            if re.match(f\"^{record.name}\", p.name)"),
    ("m-c03-discard-keeps-file", "C03", RC, "        cfile.close()\n        Path(fn).unlink()", "        cfile.close()"),
    ("m-c04-skip-hash", "C04", RC, "            if ub.hdf5_hashsum != chksum:", "            if False:"),
    ("m-c04-skip-prev-link", "C04", RC, "            if ub.prev_patch != prev.patch_uuid:", "            if False:"),
    ("m-c04-skip-manifest-hash", "C04", MF, "            if ubext.manifest_hashsum != chksum:", "            if False:"),
    ("m-c05-no-root-attrs", "C05", RC, "            for k, v in source_node.attrs.items():  # copy root attributes\n                target_node.attrs[k] = h5_attr_value_for_copy(v)", "            pass"),
    ("m-c05-fresh-patch-uuid", "C05", RC, "        ub = self._ublock(-1).copy(update={\"prev_patch\": self._ublock(0).prev_patch})", "        ub = self._ublock(-1).copy(update={\"prev_patch\": self._ublock(0).prev_patch, \"patch_uuid\": uuid1()})"),
    ("m-c05-set-source-ublock", "C05", RC, "        # NOTE: the new user block belongs to the merged container, not to this record\n", "        self._set_ublock(-1, ub)\n"),
    ("m-c06-no-schema-cleanup", "C06", IF, "        # delete empty group for schema\n        del self._raw[schema_group.name]", "        # delete empty group for schema\n        pass"),
    ("m-c06-copy-keeps-uuid", "C06", IF, "                obj.uuid = self.fresh_uuid()\n                new_path = obj.to_path()\n                # rename the metadata node to point to the new UUID\n                self._raw.move(node.name, new_path)", "                new_path = obj.to_path()"),
    ("m-c06-move-no-relink", "C06", WR, "            self._self_container.metador._links.repair_missing(missing, update=True)", "            pass"),
    ("m-c07-supports-reversed", "C07", IF, "        return [ref for ref in refs if requested.supports(ref)]", "        return [ref for ref in refs if ref.supports(requested)]"),
    ("m-c07-query-ignores-start", "C07", IF, "        start_node: MetadorNode = node or self._container[\"/\"]", "        start_node: MetadorNode = self._container[\"/\"]"),
    ("m-c08-unguarded-require-group", "C08", WR, "    require_group = _wrap_method(\"require_group\")", "    def require_group(self, name, *a, **k):\n        return self._wrap_if_node(self.__wrapped__.require_group(name, *a, **k))"),
    ("m-c08-keys-unfiltered", "C08", WR, "    def keys(self):\n        return map(lambda x: x[0], self.items())", "    def keys(self):\n        return self.__wrapped__.keys()"),
    ("m-c10-stub-wrong-uuid", "C10", "src/metador_core/ih5/skeleton.py", "    target._set_ublock(-1, src_ub.copy(update={\"prev_patch\": None}))", "    target._set_ublock(-1, src_ub.copy(update={\"prev_patch\": None, \"patch_uuid\": target._ublock(-1).patch_uuid}))"),
    ("m-c10-skeleton-no-attrs", "C10", "src/metador_core/ih5/skeleton.py", "        for a in v.attrs.keys():\n            ds[k].attrs[a] = h5py.Empty(None)", "        pass"),
    ("m-c10-exts-not-inherited", "C10", MF, "        if self._manifest is not None:  # inherit attached data, if manifest exists\n            mf.manifest_exts = self.manifest.manifest_exts", "        pass"),
    ("m-c11-hash-before-close", "C11", RC, "        cfile.close()  # must close it now, as we will write outside of HDF5 next\n\n        # compute checksum, write user block\n        chksum = hashsum_file(filepath, skip_bytes=USER_BLOCK_SIZE)", "        cfile.flush()\n        chksum = hashsum_file(filepath, skip_bytes=USER_BLOCK_SIZE)\n        cfile.close()  # must close it now, as we will write outside of HDF5 next\n"),
    ("m-c15-child-drops-skel", "C15", WR, "            **{k.name: v for k, v in self.acl.items() if v},", "            **{k.name: v for k, v in self.acl.items() if v and k != NodeAcl.skel_only},"),
    ("m-c15-visititems-unwrapped", "C15", WR, "            return func(name, self._wrap_if_node(node))", "            return func(name, node)"),
    ("m-c15-attrs-ro-only", "C15", WR, "        if self.acl[NodeAcl.read_only] or self.acl[NodeAcl.skel_only]:\n            return WrappedAttributeManager", "        if self.acl[NodeAcl.read_only]:\n            return WrappedAttributeManager"),
    ("m-c17-wrap-bytes-plain", "C17", PU, "    return numpy.void(bs) if len(bs) else h5py.Empty(\"b\")", "    return bs if len(bs) else h5py.Empty(\"b\")"),
    ("m-c17-marker-guard-removed", "C17", OV, "        if _is_del_mark(data):\n            raise ValueError(f\"Value '{data}' is forbidden, cannot assign!\")", "        pass"),
    ("m-c19-stop-at-short-chunk", "C19", HS, "        if not chunk:\n            break\n        h.update(chunk)", "        h.update(chunk)\n        if len(chunk) < h.block_size:\n            break"),
    ("m-c19-empty-dirs-dropped", "C19", HS, "        curr = ret\n        for seg in str(relpath).split(\"/\"):", "        if not (is_file or is_sym) and not any(path.iterdir()):\n            continue\n        curr = ret\n        for seg in str(relpath).split(\"/\"):"),
    ("m-c19-symlink-as-file", "C19", HS, "        is_file = path.is_file() and not is_sym", "        is_file = path.is_file()"),
    ("m-c20-compat-without-parents", "C20", IF, "        parents = schemas.parent_path(schema_ref.name, schema_ref.version)\n        parents_dat", "        parents = schemas.parent_path(schema_ref.name, schema_ref.version)[-1:]\n        parents_dat"),
]


def make_copy(tag):
    d = os.path.join(env.scratch_base(), "verif-mut", f"{tag}-{os.getpid()}")
    shutil.rmtree(d, ignore_errors=True)
    os.makedirs(d)
    shutil.copytree(os.path.join(REPO, "src"), os.path.join(d, "src"), ignore=shutil.ignore_patterns("__pycache__"))
    return d


def run_check(prop, d, runs=None, timeout=2400, seed=None):
    envv = dict(os.environ, VERIF_REPO_SRC=os.path.join(d, "src"), VERIF_EVIDENCE_DIR=os.path.join(d, "evidence"), VERIF_REPLAY_DIR=os.path.join(d, "replays"))
    if seed is not None:
        envv["VERIF_SEED"] = str(seed)
    cmd = [os.path.join(env.VERIF_HOME, "check"), prop, "--tier", "quick"]
    if runs:
        cmd += ["--runs", str(runs)]
    t0 = time.monotonic()
    try:
        cp = subprocess.run(cmd, capture_output=True, text=True, env=envv, timeout=timeout)
        out, rc = cp.stdout + cp.stderr, cp.returncode
    except subprocess.TimeoutExpired as e:
        out, rc = str(e.stdout)[-2000:], -9
    viol = [l for l in out.splitlines() if l.startswith("VIOLATION property=")]
    found = [l for l in out.splitlines() if l.startswith("violation found") or "oracle" in l and l.startswith("minimised")]
    return rc, viol, found, time.monotonic() - t0, out


def apply_replacement(d, file, old, new):
    p = os.path.join(d, file)
    s = open(p).read()
    if old not in s:
        return False
    open(p, "w").write(s.replace(old, new, 1))
    return True


def record_result(mid, own, caught):
    """Keep the latest outcome per change in selftest/results.json (committed, informative)."""
    import fcntl

    p = os.path.join(env.VERIF_HOME, "selftest", "results.json")
    lock = open(p + ".lock", "w")
    fcntl.flock(lock, fcntl.LOCK_EX)  # several evaluation streams may run side by side
    try:
        data = json.load(open(p))
    except Exception:
        data = {}
    if caught and caught[0] == "neutralised":
        data[mid] = {"property": own, "status": "neutralised", "evidence": caught[1][:200]}
    elif caught:
        data[mid] = {"property": own, "status": "killed", "by_check": caught[0], "evidence": caught[1][:200], "wall_s": round(caught[2])}
    else:
        data[mid] = {"property": own, "status": "survived"}
    with open(p + ".tmp", "w") as f:
        json.dump(data, f, indent=1, sort_keys=True)
    os.replace(p + ".tmp", p)
    fcntl.flock(lock, fcntl.LOCK_UN)
    lock.close()


def main(arg=None):
    arg = arg or "all"
    results = []
    todo = []
    if arg in ("all", "catalogue") or arg.startswith("m-"):
        for m in CATALOGUE:
            if arg in ("all", "catalogue") or arg == m[0]:
                todo.append(("cat", m))
    sd = os.path.join(env.VERIF_HOME, "seeded")
    if os.path.isdir(sd) and (arg in ("all", "seeded") or not arg.startswith("m-")):
        for name in sorted(os.listdir(sd)):
            mp = os.path.join(sd, name, "meta.json")
            if os.path.exists(mp) and (arg in ("all", "seeded") or arg == name):
                todo.append(("seeded", name))
    for kind, m in todo:
        if kind == "cat":
            mid, prop, file, old, new = m
            d = make_copy(mid)
            ok = apply_replacement(d, file, old, new)
            if not ok:
                print(f"MUTANT {mid}: pattern not found in {file} (catalogue out of date)")
                results.append((mid, prop, "stale"))
                shutil.rmtree(d, ignore_errors=True)
                continue
            props = [prop]
        else:
            mid = m
            meta = json.load(open(os.path.join(sd, m, "meta.json")))
            props = meta.get("detect_with") or [meta["property"]]
            d = make_copy(mid)
            cp = subprocess.run(["patch", "-p1", "-s", "-d", d, "-i", os.path.join(sd, m, "patch.diff")], capture_output=True, text=True)
            if cp.returncode == 0 and meta.get("neutralised_by"):
                # a later repair of /repo took away what this change needed: if its own
                # demonstration passes on the changed copy, it breaks nothing any more
                dm = subprocess.run(["/venv/bin/python", "demo.py"], cwd=os.path.join(sd, m), env=dict(os.environ, PYTHONPATH=os.path.join(d, "src"), LD_PRELOAD=""), capture_output=True, text=True, timeout=600)
                if dm.returncode == 0:
                    print(f"MUTANT {mid}: NEUTRALISED ({meta['neutralised_by'][:80]}...): its demonstration passes on the changed copy")
                    results.append((mid, props[0], "neutralised"))
                    record_result(mid, props[0], ("neutralised", "demonstration passes on the repaired tree with the change applied", 0))
                    shutil.rmtree(d, ignore_errors=True)
                    continue
            if cp.returncode != 0:
                print(f"MUTANT {mid}: patch does not apply: {cp.stdout[-300:]} {cp.stderr[-300:]}")
                results.append((mid, props[0], "stale"))
                shutil.rmtree(d, ignore_errors=True)
                continue
        fam = [["C01", "C02", "C03", "C05", "C11", "C10", "C04"], ["C06", "C07", "C08", "C09", "C15", "C17", "C20", "C01"], ["C19"]]
        own = list(props)
        for f in fam:
            if os.environ.get("VERIF_MUT_OWN_ONLY"):
                break
            if own[0] in f:
                props = own + [x for x in f if x not in own]
        caught = None
        for prop in props:
            rc, viol, found, wall, out = run_check(prop, d)
            if rc == 1 and viol:
                caught = (prop, found[-1] if found else viol[0], wall)
                break
            if rc not in (0, 1):
                caught = None
                print(f"MUTANT {mid}: check {prop} ended with rc={rc}: {out[-400:]}")
        shutil.rmtree(d, ignore_errors=True)
        record_result(mid, own[0], caught)
        if caught:
            print(f"MUTANT {mid}: KILLED by {caught[0]}{'' if caught[0] == own[0] else ' (not by its own check ' + own[0] + ')'} in {caught[2]:.0f}s ({caught[1][:160]})")
            results.append((mid, caught[0], "killed"))
        else:
            print(f"MUTANT {mid}: SURVIVED quick checks {props}")
            results.append((mid, props[0], "survived"))
        sys.stdout.flush()
    k = sum(1 for r in results if r[2] in ("killed", "neutralised"))
    print(f"mutants: {k}/{len(results)} killed or neutralised; survived: {[r[0] for r in results if r[2] == 'survived']}; stale: {[r[0] for r in results if r[2] == 'stale']}")
    return 0 if k == len(results) else 1
