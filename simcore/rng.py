"""Seed derivation: one integer (VERIF_SEED) decides everything."""
from __future__ import annotations

import hashlib
import random


def derive(*parts) -> int:
    s = "/".join(str(p) for p in parts)
    return int.from_bytes(hashlib.sha256(s.encode()).digest()[:8], "big")


def stream(*parts) -> random.Random:
    return random.Random(derive(*parts))


class Rng:
    """Named sub-streams of one run seed (never uses Python's hash())."""

    def __init__(self, tag: str):
        self.tag = tag
        self._streams = {}

    def __getitem__(self, name: str) -> random.Random:
        if name not in self._streams:
            self._streams[name] = stream(self.tag, name)
        return self._streams[name]


def run_tag(seed: int, prop: str, index: int) -> str:
    return f"{seed}/{prop}/{index}"
