"""Environment set-up shared by all engines.

* repairs the numpy/pint incompatibility of the sandbox (numpy.cumproduct),
* puts the repository's current working tree first on sys.path
  (VERIF_REPO_SRC overrides /repo/src, used by the mutant self-test),
* binds the LD_PRELOAD shim through ctypes,
* installs the deterministic uuid1 seam.
"""
from __future__ import annotations

import ctypes
import hashlib
import os
import sys
import uuid as _uuid

REPO_SRC = os.environ.get("VERIF_REPO_SRC", "/repo/src")
VERIF_HOME = os.environ.get("VERIF_HOME", os.path.dirname(os.path.dirname(os.path.abspath(__file__))))

_imported = False


def import_sut():
    """Import metador_core from the working tree (idempotent)."""
    global _imported
    if _imported:
        return
    import numpy

    if not hasattr(numpy, "cumproduct"):
        numpy.cumproduct = numpy.cumprod  # Pint 0.21 vs numpy >= 2
    if sys.path[0] != REPO_SRC:
        sys.path.insert(0, REPO_SRC)
    import metador_core  # noqa

    got = os.path.realpath(os.path.dirname(metador_core.__file__))
    want = os.path.realpath(os.path.join(REPO_SRC, "metador_core"))
    if got != want:
        raise RuntimeError(f"metador_core imported from {got}, expected {want}")
    import metador_core.ih5.record  # noqa
    import metador_core.ih5.manifest  # noqa
    import metador_core.ih5.overlay  # noqa

    _imported = True


# ---------------------------------------------------------------- uuid seam


class UuidSeam:
    """Deterministic replacement for uuid1 (time + MAC are nondeterministic)."""

    def __init__(self):
        self.tag = b"unset"
        self.n = 0

    def reseed(self, tag: str):
        self.tag = tag.encode()
        self.n = 0

    def __call__(self, *a, **k):
        self.n += 1
        h = hashlib.sha256(self.tag + b"/" + str(self.n).encode()).digest()
        return _uuid.UUID(bytes=h[:16], version=1)


UUIDS = UuidSeam()


def install_uuid_seam(container: bool = False):
    import_sut()
    import metador_core.ih5.manifest as m
    import metador_core.ih5.record as r

    r.uuid1 = UUIDS
    m.uuid1 = UUIDS
    if container:
        import metador_core.container.interface as ci

        ci.uuid1 = UUIDS


# ---------------------------------------------------------------- shim


class Shim:
    """ctypes binding of libsimio.so (must have been LD_PRELOADed)."""

    def __init__(self):
        path = os.environ.get("VERIF_SHIM")
        self.lib = None
        if path and os.path.exists(path) and path in os.environ.get("LD_PRELOAD", ""):
            lib = ctypes.CDLL(path)
            try:
                lib.simio_present.restype = ctypes.c_int
                if lib.simio_present() == 1:
                    self.lib = lib
            except AttributeError:
                self.lib = None
        if self.lib is not None:
            L = self.lib
            L.simio_set_root.argtypes = [ctypes.c_char_p]
            L.simio_set_log.argtypes = [ctypes.c_int]
            L.simio_set_trace.argtypes = [ctypes.c_int]
            L.simio_count.restype = ctypes.c_long
            L.simio_set_kill.argtypes = [ctypes.c_long, ctypes.c_int, ctypes.c_long]
            L.simio_set_err.argtypes = [ctypes.c_long, ctypes.c_int, ctypes.c_int]
            L.simio_protect.argtypes = [ctypes.c_char_p]
            L.simio_protect.restype = ctypes.c_int
            L.simio_unprotect.argtypes = [ctypes.c_char_p]
        self.logfd = -1
        self.logpath = None
        self.logpos = 0

    @property
    def ok(self):
        return self.lib is not None

    def require(self):
        if not self.ok:
            raise HarnessError("LD_PRELOAD shim not active (run through ./check)")

    def attach(self, root: str, logpath: str):
        """Simulate all paths below root, log events to logpath."""
        self.require()
        self.lib.simio_set_root(root.encode())
        self.lib.simio_unprotect_all()
        self.lib.simio_reset()
        if self.logfd >= 0:
            os.close(self.logfd)
        self.logfd = os.open(logpath, os.O_WRONLY | os.O_CREAT | os.O_APPEND, 0o644)
        self.logpath = logpath
        self.logpos = 0
        self.lib.simio_set_log(self.logfd)

    def detach(self):
        if self.ok:
            self.lib.simio_set_root(b"")
            self.lib.simio_set_log(-1)
        if self.logfd >= 0:
            os.close(self.logfd)
            self.logfd = -1

    def drain(self):
        """Return event lines logged since the last drain."""
        if not self.logpath:
            return []
        with open(self.logpath, "rb") as f:
            f.seek(self.logpos)
            data = f.read()
        self.logpos += len(data)
        return [l.split(" ") for l in data.decode("utf-8", "replace").splitlines() if l]

    def reset(self):
        self.lib.simio_reset()

    def count(self) -> int:
        return int(self.lib.simio_count())

    def set_kill(self, k: int, mode: int = 0, arg: int = 0):
        self.lib.simio_set_kill(k, mode, arg)

    def set_err(self, k: int, err: int, sticky: bool = False):
        self.lib.simio_set_err(k, err, 1 if sticky else 0)

    def set_trace(self, on: bool):
        self.lib.simio_set_trace(1 if on else 0)

    def protect(self, path: str):
        if self.lib.simio_protect(os.fsencode(path)) != 0:
            raise HarnessError("shim protected table full")

    def unprotect(self, path: str):
        self.lib.simio_unprotect(os.fsencode(path))


class HarnessError(Exception):
    """Something is wrong with the harness itself (exit code 2, never a violation)."""


_shim = None


def shim() -> Shim:
    global _shim
    if _shim is None:
        _shim = Shim()
    return _shim


def scratch_base() -> str:
    for cand in ("/dev/shm",):
        if os.path.isdir(cand) and os.access(cand, os.W_OK):
            return cand
    import tempfile

    return tempfile.gettempdir()


_frozen = False


def settle():
    """Run the cyclic garbage collector now.  File objects that the library leaves to the
    collector (a refused open leaks its h5py files until the exception's reference cycle is
    collected) change what a later open sees ('file exists' as OSError instead of
    FileExistsError while HDF5 still holds the file).  When that happens must be a function
    of the operation sequence, not of how much the process allocated before this run, so
    every engine settles before each step.  Objects alive after warm-up are frozen once to
    keep the collections cheap."""
    import gc

    global _frozen
    if not _frozen:
        gc.collect()
        gc.freeze()
        _frozen = True
    gc.collect()


def sut_exception_violation(exc, prop, step):
    """An exception that escaped from SUT code during an observation the harness expects
    to work is an observable failure (violation), not a harness error.  Returns a violation
    dict, or None if no frame of the traceback lies in the repository sources."""
    import traceback

    tb = traceback.extract_tb(exc.__traceback__)
    src = os.path.realpath(REPO_SRC)
    frames = [f for f in tb if os.path.realpath(f.filename).startswith(src)]
    if not frames:
        return None
    last = frames[-1]
    where = f"{os.path.relpath(os.path.realpath(last.filename), src)}:{last.name}"
    return {
        "prop": prop,
        "oracle": "unexpected-exception",
        "detail": f"{type(exc).__name__}: {str(exc)[:200]} raised from {where} while the harness observed the system (an observation that must not fail)",
        "shape": f"{type(exc).__name__}@{where}",
        "step": step,
    }
