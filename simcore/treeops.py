"""Data-operation language shared by the engines: generation (with a best-effort shadow
tree used only for biasing), and application to any h5py-like object.

A data op is a JSON dict:
  {"op":"set_ds","base":"/","path":"a/b","val":[kind,payload]}
  {"op":"create_group"|"require_group","base":..,"path":..}
  {"op":"del","base":..,"path":..}
  {"op":"set_attr","node":"/a","key":"k","val":[..]}   {"op":"del_attr","node":..,"key":..}
  {"op":"copy","base":..,"src":..,"dst":..,"how":"path"|"group"}   ("group": dst is a group object, name kept)
  {"op":"move","base":..,"src":..,"dst":..}
Interpretation is total: any op may be applied in any state; it then succeeds or raises.
"""
from __future__ import annotations

from . import values as V

PLAIN_KEYS = ["a", "b", "c", "d"]
EXOTIC_KEYS = ["x_metador_y", "a.metador_b", "nometador_", "~", "!", "a.b", "a=b", "%", "'", '"', "\\", "p1", "..", "a b".replace(" ", "_"), "#x", "[0]", "{k}", "-", "0"]
ATTR_KEYS = ["k", "m", "n", "a", "a.b", "~", "x=y"]

DATA_OPS = ("set_ds", "create_group", "require_group", "del", "set_attr", "del_attr", "copy", "move")


# ---------------------------------------------------------------- shadow


class Shadow:
    """Approximate model of the tree, only used to bias the generator."""

    def __init__(self):
        self.nodes = {"/": "g"}
        self.attrs = {"/": set()}
        self.grave = []  # recently removed paths

    def clone(self):
        s = Shadow()
        s.nodes = dict(self.nodes)
        s.attrs = {k: set(v) for k, v in self.attrs.items()}
        s.grave = list(self.grave)
        return s

    @staticmethod
    def join(base, path):
        if path.startswith("/"):
            return path
        return (base.rstrip("/") + "/" + path) if base != "/" else "/" + path

    @staticmethod
    def parent(p):
        if p == "/":
            return "/"
        i = p.rfind("/")
        return p[:i] or "/"

    def under(self, p):
        pre = p.rstrip("/") + "/"
        return [q for q in self.nodes if q == p or q.startswith(pre)]

    def ensure_parents(self, p):
        par = self.parent(p)
        chain = []
        while par not in self.nodes:
            chain.append(par)
            par = self.parent(par)
        if self.nodes.get(par) != "g":
            return False
        for q in chain:
            self.nodes[q] = "g"
            self.attrs[q] = set()
        return True

    def create(self, p, kind):
        if p in self.nodes:
            return False
        if not self.ensure_parents(p):
            return False
        self.nodes[p] = kind
        self.attrs[p] = set()
        return True

    def delete(self, p):
        if p not in self.nodes or p == "/":
            return False
        for q in self.under(p):
            del self.nodes[q]
            self.attrs.pop(q, None)
            self.grave.append(q)
        self.grave = self.grave[-12:]
        return True

    def copy(self, src, dst):
        if src not in self.nodes or dst in self.nodes:
            return False
        if not self.ensure_parents(dst):
            return False
        for q in self.under(src):
            nq = dst + q[len(src):]
            self.nodes[nq] = self.nodes[q]
            self.attrs[nq] = set(self.attrs.get(q, ()))
        return True

    def apply(self, op):
        k = op["op"]
        if k in ("set_ds",):
            self.create(self.join(op["base"], op["path"]), "d")
        elif k in ("create_group", "require_group"):
            self.create(self.join(op["base"], op["path"]), "g")
        elif k == "del":
            self.delete(self.join(op["base"], op["path"]))
        elif k == "set_attr":
            if op["node"] in self.nodes:
                self.attrs[op["node"]].add(op["key"])
        elif k == "del_attr":
            if op["node"] in self.nodes:
                self.attrs[op["node"]].discard(op["key"])
        elif k == "copy":
            src = self.join(op["base"], op["src"])
            dst = self.join(op["base"], op["dst"])
            if op.get("how") == "group":
                leaf = op.get("name") or src.rsplit("/", 1)[-1]
                dst = dst.rstrip("/") + "/" + leaf if dst != "/" else "/" + leaf
            self.copy(src, dst)
        elif k == "move":
            src = self.join(op["base"], op["src"])
            dst = self.join(op["base"], op["dst"])
            if not (dst == src or dst.startswith(src.rstrip("/") + "/")):
                if self.copy(src, dst):
                    self.delete(src)

    def groups(self):
        return sorted(p for p, k in self.nodes.items() if k == "g")

    def datasets(self):
        return sorted(p for p, k in self.nodes.items() if k == "d")

    def all(self):
        return sorted(self.nodes)


# ---------------------------------------------------------------- generation


class ValueGen:
    """Unique values: every generated value embeds a counter."""

    def __init__(self, rnd, kinds=None):
        self.rnd = rnd
        self.n = 0
        self.kinds = kinds or ["i", "f", "b", "s", "su", "y", "v", "a", "a2", "e", "ao"]

    def next(self, attr=False):
        self.n += 1
        n = self.n
        k = self.rnd.choice(self.kinds)
        if k == "i":
            return ["i", n * 7 + self.rnd.randrange(7)]
        if k == "f":
            return ["f", n + self.rnd.choice([0.25, 0.5, 0.125])]
        if k == "b":
            # bools are not unique; pair with counter through kind choice only
            return ["b", bool(n % 2)]
        if k == "s":
            return ["s", f"tok{n}-" + self.rnd.choice(["x", "hello world", "A/B", "q@r", ""])]
        if k == "su":
            return ["s", f"tok{n}-" + self.rnd.choice(["äö", "中", "λ x"])]
        if k == "y":
            return ["y", V.b64(f"byt{n}".encode() + bytes(self.rnd.choice([[], [255], [128, 1], [127]])))]
        if k == "v":
            if self.rnd.random() < 0.12:
                # a single opaque byte other than the deletion marker value 0x7f
                return ["v", V.b64(bytes([self.rnd.choice([0, 1, 0x7e, 0x80, 0xff, 0x20])]))]
            body = self.rnd.choice([b"\x00", b"\x00\x00", b"\x7f\x7f", b"\xff\x00", b"\x7f", b""])
            return ["v", V.b64(f"v{n}".encode() + body + b"\x00")]
        if k == "a":
            return ["a", [n, n + 1, self.rnd.randrange(100)]]
        if k == "a2":
            return ["a", [[n, 1], [2, self.rnd.randrange(100)]]]
        if k == "e":
            return ["e"]
        if k == "ao":
            # array of variable-length byte strings, some of them not valid UTF-8
            items = [f"o{n}".encode() + bytes(self.rnd.choice([[], [0x80], [0xC3], [0xE4, 0xB8], [0xFF, 0x41]])) for _ in range(self.rnd.choice([1, 2, 3]))]
            return ["O", [V.b64(b) for b in items]]
        raise ValueError(k)


class DataGen:
    """Generates data ops biased by a shadow tree."""

    def __init__(self, rnd, exotic=0.15, max_nodes=25, vgen=None, weights=None):
        self.rnd = rnd
        self.exotic = exotic
        self.max_nodes = max_nodes
        self.vgen = vgen or ValueGen(rnd)
        self.copy_variants = False
        self.w = dict(set_ds=25, create_group=12, require_group=4, **{"del": 14}, set_attr=14, del_attr=6, copy=8, move=6)
        if weights:
            self.w.update(weights)

    def key(self):
        if self.rnd.random() < self.exotic:
            if self.rnd.random() < 0.35:
                # any key from the documented alphabet: printable ASCII without '@' (and '/')
                alpha = [chr(c) for c in range(33, 127) if chr(c) not in "@/"]
                k = "".join(self.rnd.choice(alpha) for _ in range(self.rnd.choice([1, 1, 2, 3])))
                if k not in (".",) and not k.startswith("metador_"):
                    return k
            return self.rnd.choice(EXOTIC_KEYS)
        return self.rnd.choice(PLAIN_KEYS)

    def fresh_path(self, sh: Shadow, depth=None):
        """A path that (probably) does not exist yet, under an existing group or not."""
        r = self.rnd
        groups = sh.groups()
        base = r.choice(groups)
        d = depth or r.choice([1, 1, 1, 2, 2, 3])
        segs = [self.key() for _ in range(d)]
        p = Shadow.join(base, "/".join(segs))
        return p

    def existing(self, sh: Shadow, kinds="gd", allow_root=False):
        c = [p for p, k in sh.nodes.items() if k in kinds and (allow_root or p != "/")]
        c.sort()
        return self.rnd.choice(c) if c else None

    def split(self, sh: Shadow, p):
        """Choose (base, relative-or-absolute path) addressing absolute path p."""
        r = self.rnd
        if p != "/" and r.random() < 0.08:
            # an absolute path used through the handle of an unrelated group, preferably the
            # one created last (it lives in the newest container)
            gl = [q for q, k in sh.nodes.items() if k == "g" and q != "/"]
            if gl:
                return (gl[-1] if r.random() < 0.6 else r.choice(gl)), p
        if r.random() < 0.55 or p == "/":
            return "/", p if r.random() < 0.5 else p.lstrip("/") or "/"
        # relative from an ancestor group
        anc = []
        q = Shadow.parent(p)
        while True:
            if sh.nodes.get(q) == "g":
                anc.append(q)
            if q == "/":
                break
            q = Shadow.parent(q)
        if not anc:
            return "/", p
        base = r.choice(anc)
        if r.random() < 0.2 and base != "/":
            return base, p  # absolute path used from a subgroup
        rel = p[len(base):].lstrip("/") if base != "/" else p.lstrip("/")
        return base, rel or p

    def gen(self, sh: Shadow):
        r = self.rnd
        n = len(sh.nodes)
        w = dict(self.w)
        if n >= self.max_nodes:
            w["set_ds"] //= 4
            w["create_group"] //= 4
            w["copy"] //= 4
            w["del"] *= 3
        kinds = list(w)
        k = r.choices(kinds, [w[x] for x in kinds])[0]
        if k in ("set_ds", "create_group", "require_group"):
            roll = r.random()
            if roll < 0.70:
                p = self.fresh_path(sh)
            elif roll < 0.85 and sh.grave:
                p = r.choice(sh.grave)  # recreate something deleted
            else:
                p = self.existing(sh) or self.fresh_path(sh)
                if r.random() < 0.5:
                    p = Shadow.join(p, self.key())  # below existing (maybe below a dataset)
            base, rel = self.split(sh, p)
            op = {"op": k, "base": base, "path": rel}
            if k == "set_ds":
                op["val"] = self.vgen.next()
            return op
        if k == "del":
            roll = r.random()
            p = self.existing(sh) if roll < 0.85 else None
            if p is None:
                p = r.choice(sh.grave) if sh.grave and r.random() < 0.5 else self.fresh_path(sh)
            base, rel = self.split(sh, p)
            return {"op": "del", "base": base, "path": rel}
        if k == "set_attr":
            p = self.existing(sh, allow_root=True) if r.random() < 0.92 else self.fresh_path(sh)
            return {"op": "set_attr", "node": p or "/", "key": r.choice(ATTR_KEYS), "val": self.vgen.next(attr=True)}
        if k == "del_attr":
            cands = sorted(p for p, a in sh.attrs.items() if a and p in sh.nodes)
            if cands and r.random() < 0.85:
                p = r.choice(cands)
                return {"op": "del_attr", "node": p, "key": r.choice(sorted(sh.attrs[p]))}
            p = self.existing(sh, allow_root=True) or "/"
            return {"op": "del_attr", "node": p, "key": r.choice(ATTR_KEYS)}
        if k in ("copy", "move"):
            src = self.existing(sh) if r.random() < 0.9 else self.fresh_path(sh)
            if src is None:
                src = self.fresh_path(sh)
            roll = r.random()
            if k == "copy" and roll < 0.12 and sh.nodes.get(src) == "g":
                dst = Shadow.join(src, self.key())  # into its own subtree
            elif roll < 0.68:
                dst = self.fresh_path(sh)
            elif roll < 0.8 and sh.grave:
                dst = r.choice(sh.grave)  # a path that was deleted earlier
            else:
                dst = self.existing(sh) or self.fresh_path(sh)  # onto existing
            if k == "move" and (dst == src or dst.startswith(src.rstrip("/") + "/")):
                dst = "/" + self.key() + "_mv"
            base = "/"
            gl = [q for q, kk in sh.nodes.items() if kk == "g" and q != "/"]
            if gl and r.random() < 0.08:
                base = gl[-1] if r.random() < 0.6 else r.choice(gl)  # absolute paths through an unrelated group
            elif r.random() < 0.3:
                b2 = r.choice(sh.groups())
                pre = b2.rstrip("/") + "/"
                if src.startswith(pre) and dst.startswith(pre):
                    base, src, dst = b2, src[len(pre):], dst[len(pre):]
            op = {"op": k, "base": base, "src": src, "dst": dst}
            if k == "copy" and r.random() < 0.15 and sh.groups():
                op["how"] = "group"
                op["dst"] = r.choice(sh.groups())
            if k == "copy" and self.copy_variants:
                if r.random() < 0.15:
                    op["srcobj"] = True
                if r.random() < 0.12:
                    op["shallow"] = True
                if r.random() < 0.12:
                    op["without_attrs"] = True
                if op.get("how") == "group" and r.random() < 0.3:
                    op["name"] = self.key() + "_n"
            return op
        raise AssertionError(k)


# ---------------------------------------------------------------- application


def is_into_own_subtree(op):
    """move of a node into its own subtree (excluded by C01/C06 quantifiers)."""
    if op["op"] != "move":
        return False
    src = Shadow.join(op["base"], op["src"]).rstrip("/")
    dst = Shadow.join(op["base"], op["dst"]).rstrip("/")
    return dst == src or dst.startswith(src + "/")


def apply_data_op(root, op):
    """Apply a data op through the h5py-like public API of `root` (file-like object)."""
    k = op["op"]
    if k == "set_ds":
        root[op["base"]][op["path"]] = V.mk(op["val"])
    elif k == "create_group":
        root[op["base"]].create_group(op["path"])
    elif k == "require_group":
        root[op["base"]].require_group(op["path"])
    elif k == "del":
        del root[op["base"]][op["path"]]
    elif k == "set_attr":
        root[op["node"]].attrs[op["key"]] = V.mk(op["val"])
    elif k == "del_attr":
        del root[op["node"]].attrs[op["key"]]
    elif k == "copy":
        g = root[op["base"]]
        kw = {}
        if op.get("shallow"):
            kw["shallow"] = True
        if op.get("without_attrs"):
            kw["without_attrs"] = True
        if op.get("name"):
            kw["name"] = op["name"]
        src = g[op["src"]] if op.get("srcobj") else op["src"]
        if op.get("how") == "group":
            g.copy(src, root[op["dst"]], **kw)
        else:
            g.copy(src, op["dst"], **kw)
    elif k == "move":
        root[op["base"]].move(op["src"], op["dst"])
    else:
        raise ValueError(f"not a data op: {k}")


def try_apply(root, op):
    """Returns (ok, exception type name or None)."""
    try:
        apply_data_op(root, op)
        return True, None
    except Exception as e:  # noqa - the outcome is the observation
        return False, type(e).__name__


def paths_of(op):
    """Absolute paths an op talks about (for non-triviality / shape keys)."""
    k = op["op"]
    if k in ("set_ds", "create_group", "require_group", "del"):
        return [Shadow.join(op["base"], op["path"])]
    if k in ("set_attr", "del_attr"):
        return [op["node"]]
    if k in ("copy", "move"):
        return [Shadow.join(op["base"], op["src"]), Shadow.join(op["base"], op["dst"])]
    return []


def hdf5_abs_dest_quirk(ref, op):
    """libhdf5 2.0.0 (bundled with h5py 3.16) fails H5Ocopy with 'message type not found'
    when the copy is issued from a non-root group G with an *absolute* destination whose
    first segment is the name of a non-group child of G (e.g. f['d'].copy('a', '/a/b') with
    dataset /d/a).  This is a defect of the reference library, not of the code under test;
    such ops are excluded (the plain reference itself misbehaves)."""
    if op["op"] != "copy" or op.get("base", "/") in ("/", ""):
        return False
    dst = op["dst"]
    if op.get("how") == "group":
        # destination given as group object: the container builds '<group path>/<source name>'
        dst = dst if dst.startswith("/") else Shadow.join(op["base"], dst)
        dst = dst.rstrip("/") + "/" + op["src"].rstrip("/").rsplit("/", 1)[-1]
    if not dst.startswith("/"):
        return False
    rel = dst.strip("/")
    first = rel.split("/")[0]
    try:
        g = ref[op["base"]]
        if first in g and not hasattr(g[first], "keys"):
            return True
        if rel and rel in g:
            # ... or when the destination path, read relative to G, names an existing object
            # ('destination object already exists' although the absolute path is free)
            return True
    except Exception:
        return False
    return False
