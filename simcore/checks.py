"""Check orchestration: sweep -> (violation -> minimise -> replay file -> fresh-process
replay) -> KNOWN-FINDING / VIOLATION lines -> evidence file."""
from __future__ import annotations

import json
import os
import subprocess
import sys
import time

from . import driver, env

HOME = env.VERIF_HOME

REAL_STUB = {
    "real": [
        "metador_core (imported from the current working tree of /repo/src)",
        "h5py + bundled libhdf5, pydantic, numpy",
        "kernel VFS (tmpfs scratch directory per run)",
    ],
    "interposed": [
        "libc write/pwrite/writev/ftruncate/open(O_CREAT|O_TRUNC)/unlink/rename below the run's sut/ root (LD_PRELOAD libsimio.so: counting, kill/torn write, errno injection, protected-file write monitor)",
    ],
    "stub": [
        "uuid1 in ih5.record / ih5.manifest / container.interface (counter-based, seeded)",
        "file discovery order of IH5Record.find_files (seeded permutation)",
    ],
    "reference": ["plain h5py.File per record + small life-cycle model"],
}


def registry():
    from sims.ih5store import IH5StoreEngine

    engines = {"ih5store": IH5StoreEngine()}
    props = {
        "C01": ("ih5store", "exploration"),
        "C02": ("ih5store", "exploration"),
        "C03": ("ih5store", "exploration"),
        "C05": ("ih5store", "exploration"),
    }
    for name, modname, clsname, plist in OPTIONAL_ENGINES:
        try:
            mod = __import__(modname, fromlist=[clsname])
            engines[name] = getattr(mod, clsname)()
            for p, lvl in plist:
                props[p] = (name, lvl)
        except ImportError:
            pass
    return engines, props


OPTIONAL_ENGINES = [
    ("ih5crash", "sims.ih5crash", "IH5CrashEngine", [("C11", "fault_enumeration")]),
    ("fileset", "sims.fileset", "FilesetEngine", [("C04", "fault_enumeration")]),
    ("sites", "sims.sites", "SitesEngine", [("C10", "exploration")]),
    ("container", "sims.container", "ContainerEngine", [("C06", "exploration"), ("C07", "exploration"), ("C08", "exploration"), ("C09", "exploration"), ("C15", "exploration"), ("C17", "exploration"), ("C20", "exploration")]),
    ("dirscan", "sims.dirscan", "DirscanEngine", [("C19", "exploration")]),
]

# (quick runs, thorough runs, thorough wall cap seconds)
BUDGET = {
    "C01": (600, 150000, 1500),
    "C02": (500, 100000, 1500),
    "C03": (500, 100000, 1500),
    "C05": (400, 80000, 1500),
    "C04": (80, 2000, 1500),
    "C11": (600, 3000, 1500),
    "C10": (250, 30000, 1500),
    "C06": (96, 20000, 1500),
    "C07": (96, 20000, 1500),
    "C08": (96, 20000, 1500),
    "C09": (96, 20000, 1500),
    "C15": (96, 20000, 1500),
    "C17": (96, 20000, 1500),
    "C20": (96, 20000, 1500),
    "C19": (8000, 1000000, 600),
}

RULES = {}


def merge_counts(dst, src):
    for k, v in (src or {}).items():
        dst[k] = dst.get(k, 0) + v


def write_evidence(prop, level, tier, seed, results, wall, nviol, engine, extra=None, capped=False, planned=0, detcheck=None):
    faults, probes = {}, {}
    steps = 0
    sigs = set()
    nontrivial = 0
    for r in results:
        merge_counts(faults, r.get("faults"))
        merge_counts(probes, r.get("probes"))
        steps += r.get("steps", 0)
        if r.get("nontrivial"):
            nontrivial += 1
            sigs.add(r.get("sig"))
    samples = []
    for r in results:
        if "case" in r and len(samples) < 3:
            c = r["case"]
            samples.append({"index": r["index"], "cfg": c.get("cfg"), "ops": c.get("ops")[:40], "ops_total": len(c.get("ops", []))})
    n = len(results)
    cov = {
        "evaluations": n,
        "distinct_nontrivial": len(sigs),
        "nontrivial_runs": nontrivial,
        "rule": getattr(engine, "rule", {}).get(prop) if isinstance(getattr(engine, "rule", None), dict) else getattr(engine, "rule", ""),
        "samples": samples or [{"note": "no sample retained"}],
        "runs_per_hour": round(n / wall * 3600) if wall > 0 else 0,
        "seeds_per_hour": round(n / wall * 3600) if wall > 0 else 0,
        "logical_steps": steps,
        "simulated_time": "none: the code under test has no timers; progress is measured in logical steps (operations executed)",
        "faults_fired": dict(sorted(faults.items())),
        "probes": dict(sorted(probes.items())),
        "components": getattr(engine, "components", REAL_STUB),
        "ended_by": "wall-clock cap" if capped else "run count",
        "determinism_spot_check": detcheck or "not run",
        "planned_runs": planned,
    }
    if not cov["rule"]:
        cov["rule"] = "seeded histories; distinct = distinct digest of (op-kind sequence, final container layout); non-trivial per engine rule"
    if extra:
        cov.update(extra)
    ev = {
        "property_id": prop,
        "tier": tier,
        "seed": seed,
        "level": level,
        "coverage": cov,
        "assumptions": getattr(engine, "assumptions", {}).get(prop, []) if isinstance(getattr(engine, "assumptions", None), dict) else [],
        "wall_s": round(wall, 2),
        "violations": nviol,
    }
    evdir = os.environ.get("VERIF_EVIDENCE_DIR") or os.path.join(HOME, "evidence")
    os.makedirs(evdir, exist_ok=True)
    p = os.path.join(evdir, f"{prop}.json")
    with open(p + ".tmp", "w") as f:
        json.dump(ev, f, indent=1, sort_keys=True)
    os.replace(p + ".tmp", p)
    return p


def write_replay(prop, seed, index, case, violation):
    d = os.environ.get("VERIF_REPLAY_DIR") or os.path.join(HOME, "replays")
    os.makedirs(d, exist_ok=True)
    p = os.path.join(d, f"{prop}-{seed}-{index}.json")
    rec = {
        "property": prop,
        "seed": seed,
        "index": index,
        "engine": case.get("engine"),
        "oracle": violation.get("oracle"),
        "shape": violation.get("shape"),
        "detail": violation.get("detail"),
        "case": case,
    }
    with open(p, "w") as f:
        json.dump(rec, f, indent=1)
    return p


def replay_file(path, quiet=False):
    """Re-execute a replay file; returns (reproduced, violations)."""
    engines, props = registry()
    with open(path) as f:
        rec = json.load(f)
    case = rec["case"]
    engine = engines[case["engine"]]
    scratch = driver.Scratch("replay")
    try:
        res = driver.run_case(engine, case, scratch.sub("r"))
    finally:
        scratch.cleanup()
    if res.get("harness_error"):
        if not quiet:
            print("HARNESS-ERROR during replay:\n" + str(res["harness_error"]))
        return None, res
    same = [v for v in res.get("violations", []) if v.get("prop") == rec["property"] and v.get("oracle") == rec["oracle"]]
    if not quiet:
        for v in res.get("violations", []):
            print(f"replayed violation: {v['prop']}/{v['oracle']} step={v.get('step')} shape={v.get('shape')}\n  {v['detail']}")
        if not res.get("violations"):
            print("replay: no violation")
    return bool(same), res


def run_check(prop, tier="quick", seed=0, nruns=None, workers=None, wall_cap=None):
    engines, props = registry()
    if prop not in props:
        print(f"HARNESS-ERROR: no check for {prop}")
        return 2
    ename, level = props[prop]
    engine = engines[ename]
    q, t, cap = BUDGET[prop]
    if nruns is None:
        nruns = q if tier == "quick" else t
    if wall_cap is None and tier == "thorough":
        wall_cap = cap
    if os.environ.get("VERIF_WALL_CAP"):
        wall_cap = float(os.environ["VERIF_WALL_CAP"])
    workers = workers or int(os.environ.get("VERIF_WORKERS", "16"))
    workers = max(1, min(workers, nruns))
    pre = getattr(engine, "precheck", None)
    t0 = time.monotonic()
    print(f"check {prop} tier={tier} seed={seed} runs={nruns} workers={workers} engine={ename} repo={env.REPO_SRC}")
    sys.stdout.flush()
    known = driver.load_known()
    driver.KNOWN = known
    results, capped = driver.sweep(engine, prop, tier, seed, nruns, workers, wall_cap=wall_cap)
    extra_results = []
    if pre:
        extra_results = pre(prop, tier) or []
    # determinism spot check: the first runs again, in other processes; digests must agree
    nondet = []
    nrep = 0
    if not os.environ.get("VERIF_NO_DETCHECK"):
        nrep = min(getattr(engine, "detcheck_runs", {}).get(tier, 6 if tier == "quick" else 12), len(results))
        again, _ = driver.sweep(engine, prop, tier, seed, nrep, min(3, max(1, nrep)), stop_on_violation=False)
        first = {r["index"]: r for r in results}
        for r in again:
            a = first.get(r["index"])
            if a is None or a.get("harness_error") or r.get("harness_error"):
                continue
            if a.get("log_digest") != r.get("log_digest") or len(a.get("violations", [])) != len(r.get("violations", [])):
                nondet.append(r["index"])
    wall = time.monotonic() - t0
    herr = [r for r in results if r.get("harness_error")]
    rc = 0
    nviol = 0
    lines = []
    if herr:
        h = herr[0]
        print(f"HARNESS-ERROR: run index {h['index']}:\n{h['harness_error']}")
        rc = 2
    if nondet:
        print(f"HARNESS-ERROR: nondeterminism: run indices {nondet} gave different event-log digests when executed twice")
        rc = 2
    seen_known = {}
    unknown = []
    for r in results:
        for v in r.get("violations", []):
            if v.get("prop") != prop:
                continue
            k = driver.match_known(v, known)
            if k:
                seen_known.setdefault((k["oracle"], k["shape"]), (k, r["index"]))
            else:
                unknown.append((r["index"], r, v))
    for v in extra_results:
        if v.get("prop") == prop:
            k = driver.match_known(v, known)
            if k:
                seen_known.setdefault((k["oracle"], k["shape"]), (k, -1))
            else:
                unknown.append((-1, {"case": v.get("case")}, v))
    for (o, s), (k, idx) in sorted(seen_known.items()):
        print(f"KNOWN-FINDING: property={prop} {k.get('what', o + '/' + s)} (first seen at run index {idx})")
    done_keys = set()
    for idx, r, v in unknown:
        key = (v.get("prop"), v.get("oracle"))
        if key in done_keys:
            continue
        done_keys.add(key)
        nviol += 1
        case = v.get("replay_case") or r.get("case")
        v = {k: x for k, x in v.items() if k != "replay_case"}
        if case is None:
            print(f"HARNESS-ERROR: violating run {idx} has no case attached")
            rc = 2
            continue
        print(f"violation found at run index {idx}: {v['prop']}/{v['oracle']}: {v['detail'][:300]}")
        print(f"minimising ({len(case.get('ops', []))} ops)...")
        sys.stdout.flush()
        small = case
        v2 = v
        if case.get("ops") is not None and not os.environ.get("VERIF_NO_MINIMISE"):
            try:
                small = driver.minimise(engine, case, key)
                sc = driver.Scratch("vfy")
                try:
                    res2 = driver.run_case(engine, small, sc.sub("r"))
                finally:
                    sc.cleanup()
                same = [x for x in res2.get("violations", []) if (x.get("prop"), x.get("oracle")) == key]
                if same:
                    v2 = same[0]
                else:
                    small, v2 = case, v
            except Exception as e:  # minimiser trouble must not hide the violation
                print(f"(minimiser failed: {e}; reporting the unminimised case)")
                small, v2 = case, v
        k2 = driver.match_known(v2, known)
        if k2:
            print(f"KNOWN-FINDING: property={prop} {k2.get('what')} (minimised from run index {idx})")
            nviol -= 1
            continue
        path = write_replay(prop, seed, idx, small, v2)
        # fresh-process replay must reproduce
        try:
            cp = subprocess.run([os.path.join(HOME, "check"), "replay", path, "--quiet"], capture_output=True, text=True, timeout=300)
            reproduced = cp.returncode == 1
        except Exception:
            reproduced = False
        print(f"minimised to {len(small.get('ops', []))} ops; oracle {v2['oracle']} shape={v2.get('shape')}; fresh-process replay {'reproduces' if reproduced else 'DOES NOT reproduce'}")
        print(f"  {v2['detail'][:500]}")
        print(f"VIOLATION property={prop} replay={path}")
        rc = max(rc, 1) if rc != 2 else 2
    wall = time.monotonic() - t0
    try:
        p = write_evidence(prop, level, tier, seed, results, wall, nviol, engine, capped=capped, planned=nruns, detcheck=f"{nrep} runs executed twice in different processes: {len(nondet)} digest mismatches")
    except Exception as e:
        print(f"HARNESS-ERROR: cannot write evidence: {e}")
        return 2
    ok_runs = len([r for r in results if not r.get("harness_error")])
    print(f"{prop}: {ok_runs} runs in {wall:.1f}s, {nviol} violation(s), evidence {p}")
    if nviol and rc == 0:
        rc = 1
    return rc
