/*
 * libsimio.so - LD_PRELOAD fault-injection and write-monitor shim.
 *
 * The simulator (Python) controls it through exported functions (ctypes):
 *   simio_set_root(prefix)     only paths starting with prefix are simulated
 *   simio_set_log(fd)          events are appended to this fd (real write)
 *   simio_reset()              counters := 0, faults off (protected set kept)
 *   simio_count()              number of mutating calls seen under root
 *   simio_set_kill(k, mode, arg)   die inside the k-th (1-based) mutating call:
 *        mode 0: before any byte; 1: after n/2 bytes; 2: after n-1 bytes;
 *        mode 3: after min(arg,n) bytes; mode 4: after the complete call
 *   simio_set_err(k, err, sticky)  k-th mutating call returns -1/errno=err
 *                                   (sticky: every later call as well)
 *   simio_protect(path) / simio_unprotect(path) / simio_unprotect_all()
 *
 * "Mutating calls": write, pwrite(64), writev, pwritev(64), ftruncate(64),
 * open*(O_CREAT on a missing file | O_TRUNC), unlink, rename, on paths
 * under root.  A write to a *protected* path is compared with the current
 * content of the file; if it would change a byte an event line
 *   MODIFY <call> <path> <off> <len>
 * is logged (the call is still executed).  Identical rewrites are logged as
 *   REWRITE <call> <path> <off> <len>
 * Everything is single-threaded by construction (OMP_NUM_THREADS=1, no threads
 * in the SUT), so no locking is done.
 */
#define _GNU_SOURCE
#include <dlfcn.h>
#include <errno.h>
#include <fcntl.h>
#include <stdarg.h>
#include <stdio.h>
#include <stdlib.h>
#include <string.h>
#include <sys/stat.h>
#include <sys/syscall.h>
#include <sys/types.h>
#include <sys/uio.h>
#include <unistd.h>

#define MAXPROT 256
#define PATHLEN 512

static char g_root[PATHLEN] = "";
static size_t g_rootlen = 0;
static int g_logfd = -1;
static long g_count = 0;
static long g_kill_k = 0;
static int g_kill_mode = 0;
static long g_kill_arg = 0;
static long g_err_k = 0;
static int g_err_no = 0;
static int g_err_sticky = 0;
static char g_prot[MAXPROT][PATHLEN];
static int g_nprot = 0;
static int g_trace = 0;

static ssize_t (*r_write)(int, const void *, size_t);
static ssize_t (*r_pwrite)(int, const void *, size_t, off_t);
static ssize_t (*r_pwrite64)(int, const void *, size_t, off64_t);
static ssize_t (*r_writev)(int, const struct iovec *, int);
static ssize_t (*r_pwritev)(int, const struct iovec *, int, off_t);
static ssize_t (*r_pwritev64)(int, const struct iovec *, int, off64_t);
static int (*r_ftruncate)(int, off_t);
static int (*r_ftruncate64)(int, off64_t);
static int (*r_open)(const char *, int, ...);
static int (*r_open64)(const char *, int, ...);
static int (*r_openat)(int, const char *, int, ...);
static int (*r_openat64)(int, const char *, int, ...);
static int (*r_unlink)(const char *);
static int (*r_unlinkat)(int, const char *, int);
static int (*r_rename)(const char *, const char *);

static void init(void) {
  static int done = 0;
  if (done) return;
  done = 1;
  r_write = dlsym(RTLD_NEXT, "write");
  r_pwrite = dlsym(RTLD_NEXT, "pwrite");
  r_pwrite64 = dlsym(RTLD_NEXT, "pwrite64");
  r_writev = dlsym(RTLD_NEXT, "writev");
  r_pwritev = dlsym(RTLD_NEXT, "pwritev");
  r_pwritev64 = dlsym(RTLD_NEXT, "pwritev64");
  r_ftruncate = dlsym(RTLD_NEXT, "ftruncate");
  r_ftruncate64 = dlsym(RTLD_NEXT, "ftruncate64");
  r_open = dlsym(RTLD_NEXT, "open");
  r_open64 = dlsym(RTLD_NEXT, "open64");
  r_openat = dlsym(RTLD_NEXT, "openat");
  r_openat64 = dlsym(RTLD_NEXT, "openat64");
  r_unlink = dlsym(RTLD_NEXT, "unlink");
  r_unlinkat = dlsym(RTLD_NEXT, "unlinkat");
  r_rename = dlsym(RTLD_NEXT, "rename");
}

__attribute__((constructor)) static void ctor(void) { init(); }

static void logf_(const char *fmt, ...) {
  if (g_logfd < 0) return;
  char buf[1200];
  va_list ap;
  va_start(ap, fmt);
  int n = vsnprintf(buf, sizeof buf, fmt, ap);
  va_end(ap);
  if (n > (int)sizeof buf) n = sizeof buf;
  if (n > 0) syscall(SYS_write, g_logfd, buf, (size_t)n);
}

/* ---- control API ---- */
void simio_set_root(const char *p) {
  strncpy(g_root, p, PATHLEN - 1);
  g_root[PATHLEN - 1] = 0;
  g_rootlen = strlen(g_root);
}
void simio_set_log(int fd) { g_logfd = fd; }
void simio_set_trace(int t) { g_trace = t; }
void simio_reset(void) {
  g_count = 0;
  g_kill_k = 0;
  g_err_k = 0;
  g_err_sticky = 0;
}
long simio_count(void) { return g_count; }
void simio_set_kill(long k, int mode, long arg) {
  g_kill_k = k;
  g_kill_mode = mode;
  g_kill_arg = arg;
}
void simio_set_err(long k, int err, int sticky) {
  g_err_k = k;
  g_err_no = err;
  g_err_sticky = sticky;
}
int simio_protect(const char *p) {
  for (int i = 0; i < g_nprot; i++)
    if (!strcmp(g_prot[i], p)) return 0;
  if (g_nprot >= MAXPROT) return -1;
  strncpy(g_prot[g_nprot], p, PATHLEN - 1);
  g_prot[g_nprot][PATHLEN - 1] = 0;
  g_nprot++;
  return 0;
}
void simio_unprotect(const char *p) {
  for (int i = 0; i < g_nprot; i++)
    if (!strcmp(g_prot[i], p)) {
      g_nprot--;
      if (i != g_nprot) memcpy(g_prot[i], g_prot[g_nprot], PATHLEN);
      return;
    }
}
void simio_unprotect_all(void) { g_nprot = 0; }
int simio_present(void) { return 1; }

/* ---- helpers ---- */
static int under_root(const char *p) {
  return g_rootlen > 0 && p && !strncmp(p, g_root, g_rootlen);
}
static int fd_path(int fd, char *out) {
  if (g_rootlen == 0) return 0;
  char lnk[64];
  snprintf(lnk, sizeof lnk, "/proc/self/fd/%d", fd);
  ssize_t n = readlink(lnk, out, PATHLEN - 1);
  if (n <= 0) return 0;
  out[n] = 0;
  return under_root(out);
}
static int abs_path(int dirfd, const char *p, char *out) {
  if (g_rootlen == 0 || !p) return 0;
  if (p[0] == '/') {
    strncpy(out, p, PATHLEN - 1);
    out[PATHLEN - 1] = 0;
  } else {
    char base[PATHLEN];
    if (dirfd == AT_FDCWD) {
      if (!getcwd(base, sizeof base)) return 0;
    } else {
      char lnk[64];
      snprintf(lnk, sizeof lnk, "/proc/self/fd/%d", dirfd);
      ssize_t n = readlink(lnk, base, PATHLEN - 1);
      if (n <= 0) return 0;
      base[n] = 0;
    }
    snprintf(out, PATHLEN, "%s/%s", base, p);
  }
  return under_root(out);
}
static int is_prot(const char *p) {
  for (int i = 0; i < g_nprot; i++)
    if (!strcmp(g_prot[i], p)) return 1;
  return 0;
}
static void die(void) {
  logf_("KILL %ld\n", g_count);
  syscall(SYS_exit_group, 137);
}
/* returns: 0 proceed; 1 inject error (errno set) */
static int pre_call(const char *what, const char *path) {
  g_count++;
  if (g_trace) logf_("CALL %ld %s %s\n", g_count, what, path);
  if (g_err_k && (g_count == g_err_k || (g_err_sticky && g_count > g_err_k))) {
    logf_("ERR %ld %s %s %d\n", g_count, what, path, g_err_no);
    errno = g_err_no;
    return 1;
  }
  return 0;
}
static size_t torn_len(size_t n) {
  switch (g_kill_mode) {
    case 0: return 0;
    case 1: return n / 2;
    case 2: return n ? n - 1 : 0;
    case 3: return (size_t)g_kill_arg < n ? (size_t)g_kill_arg : n;
    default: return n;
  }
}
/* compare buffer with current file content; log MODIFY/REWRITE */
static void monitor_write(const char *what, const char *path, int fd, const void *buf,
                          size_t n, off64_t off) {
  if (!is_prot(path)) return;
  int differs = 0;
  struct stat64 st;
  if (fstat64(fd, &st) != 0 || off + (off64_t)n > st.st_size) {
    differs = 1;
  } else {
    int rfd = r_open64 ? r_open64(path, O_RDONLY) : r_open(path, O_RDONLY);
    if (rfd < 0) {
      differs = 1;
    } else {
      char tmp[4096];
      size_t done = 0;
      while (done < n) {
        size_t want = n - done < sizeof tmp ? n - done : sizeof tmp;
        ssize_t got = pread64(rfd, tmp, want, off + (off64_t)done);
        if (got <= 0 || memcmp(tmp, (const char *)buf + done, (size_t)got)) {
          differs = 1;
          break;
        }
        done += (size_t)got;
      }
      close(rfd);
    }
  }
  logf_("%s %s %s %lld %zu\n", differs ? "MODIFY" : "REWRITE", what, path, (long long)off,
        n);
}

#define KILL_HERE() (g_kill_k && g_count == g_kill_k)

/* ---- interposed calls ---- */
ssize_t write(int fd, const void *buf, size_t n) {
  init();
  char p[PATHLEN];
  if (fd == g_logfd || !fd_path(fd, p)) return r_write(fd, buf, n);
  if (pre_call("write", p)) return -1;
  off64_t off = lseek64(fd, 0, SEEK_CUR);
  monitor_write("write", p, fd, buf, n, off);
  if (KILL_HERE()) {
    size_t t = torn_len(n);
    if (t) r_write(fd, buf, t);
    die();
  }
  return r_write(fd, buf, n);
}
ssize_t pwrite64(int fd, const void *buf, size_t n, off64_t off) {
  init();
  char p[PATHLEN];
  if (!fd_path(fd, p)) return r_pwrite64(fd, buf, n, off);
  if (pre_call("pwrite", p)) return -1;
  monitor_write("pwrite", p, fd, buf, n, off);
  if (KILL_HERE()) {
    size_t t = torn_len(n);
    if (t) r_pwrite64(fd, buf, t, off);
    die();
  }
  return r_pwrite64(fd, buf, n, off);
}
ssize_t pwrite(int fd, const void *buf, size_t n, off_t off) {
  return pwrite64(fd, buf, n, (off64_t)off);
}
static ssize_t do_writev(int fd, const struct iovec *iov, int cnt, off64_t off, int positional) {
  char p[PATHLEN];
  if (!fd_path(fd, p))
    return positional ? r_pwritev64(fd, iov, cnt, off) : r_writev(fd, iov, cnt);
  if (pre_call("writev", p)) return -1;
  if (is_prot(p)) logf_("MODIFY writev %s %lld 0\n", p, (long long)off);
  if (KILL_HERE()) {
    if (g_kill_mode == 4) {
      if (positional) r_pwritev64(fd, iov, cnt, off); else r_writev(fd, iov, cnt);
    }
    die();
  }
  return positional ? r_pwritev64(fd, iov, cnt, off) : r_writev(fd, iov, cnt);
}
ssize_t writev(int fd, const struct iovec *iov, int cnt) {
  init();
  return do_writev(fd, iov, cnt, 0, 0);
}
ssize_t pwritev(int fd, const struct iovec *iov, int cnt, off_t off) {
  init();
  return do_writev(fd, iov, cnt, (off64_t)off, 1);
}
ssize_t pwritev64(int fd, const struct iovec *iov, int cnt, off64_t off) {
  init();
  return do_writev(fd, iov, cnt, off, 1);
}
int ftruncate64(int fd, off64_t len) {
  init();
  char p[PATHLEN];
  if (!fd_path(fd, p)) return r_ftruncate64(fd, len);
  if (pre_call("ftruncate", p)) return -1;
  if (is_prot(p)) {
    struct stat64 st;
    int same = fstat64(fd, &st) == 0 && st.st_size == len;
    logf_("%s ftruncate %s %lld 0\n", same ? "REWRITE" : "MODIFY", p, (long long)len);
  }
  if (KILL_HERE()) {
    if (g_kill_mode != 0) r_ftruncate64(fd, len);
    die();
  }
  return r_ftruncate64(fd, len);
}
int ftruncate(int fd, off_t len) { return ftruncate64(fd, (off64_t)len); }

static int open_common(int dirfd, const char *path, int flags, mode_t mode, int which) {
  char p[PATHLEN];
  int sim = abs_path(dirfd, path, p);
  if (sim && (flags & (O_CREAT | O_TRUNC))) {
    struct stat64 st;
    int exists = stat64(p, &st) == 0;
    int mutating = ((flags & O_CREAT) && !exists) || ((flags & O_TRUNC) && exists && st.st_size > 0);
    if (mutating) {
      if (pre_call((flags & O_TRUNC) && exists ? "open_trunc" : "open_creat", p)) return -1;
      if ((flags & O_TRUNC) && exists && is_prot(p)) logf_("MODIFY open_trunc %s 0 0\n", p);
      if (KILL_HERE()) {
        if (g_kill_mode != 0) {
          int fd = which == 0   ? r_open(path, flags, mode)
                   : which == 1 ? r_open64(path, flags, mode)
                   : which == 2 ? r_openat(dirfd, path, flags, mode)
                                : r_openat64(dirfd, path, flags, mode);
          (void)fd;
        }
        die();
      }
    }
  }
  switch (which) {
    case 0: return r_open(path, flags, mode);
    case 1: return r_open64(path, flags, mode);
    case 2: return r_openat(dirfd, path, flags, mode);
    default: return r_openat64(dirfd, path, flags, mode);
  }
}
int open(const char *path, int flags, ...) {
  init();
  mode_t mode = 0;
  if (flags & (O_CREAT | O_TMPFILE)) {
    va_list ap;
    va_start(ap, flags);
    mode = va_arg(ap, mode_t);
    va_end(ap);
  }
  return open_common(AT_FDCWD, path, flags, mode, 0);
}
int open64(const char *path, int flags, ...) {
  init();
  mode_t mode = 0;
  if (flags & (O_CREAT | O_TMPFILE)) {
    va_list ap;
    va_start(ap, flags);
    mode = va_arg(ap, mode_t);
    va_end(ap);
  }
  return open_common(AT_FDCWD, path, flags, mode, 1);
}
int openat(int dirfd, const char *path, int flags, ...) {
  init();
  mode_t mode = 0;
  if (flags & (O_CREAT | O_TMPFILE)) {
    va_list ap;
    va_start(ap, flags);
    mode = va_arg(ap, mode_t);
    va_end(ap);
  }
  return open_common(dirfd, path, flags, mode, 2);
}
int openat64(int dirfd, const char *path, int flags, ...) {
  init();
  mode_t mode = 0;
  if (flags & (O_CREAT | O_TMPFILE)) {
    va_list ap;
    va_start(ap, flags);
    mode = va_arg(ap, mode_t);
    va_end(ap);
  }
  return open_common(dirfd, path, flags, mode, 3);
}
int unlink(const char *path) {
  init();
  char p[PATHLEN];
  if (!abs_path(AT_FDCWD, path, p)) return r_unlink(path);
  if (pre_call("unlink", p)) return -1;
  if (is_prot(p)) logf_("MODIFY unlink %s 0 0\n", p);
  if (KILL_HERE()) {
    if (g_kill_mode != 0) r_unlink(path);
    die();
  }
  return r_unlink(path);
}
int unlinkat(int dirfd, const char *path, int flags) {
  init();
  char p[PATHLEN];
  if (!abs_path(dirfd, path, p)) return r_unlinkat(dirfd, path, flags);
  if (pre_call("unlink", p)) return -1;
  if (is_prot(p)) logf_("MODIFY unlink %s 0 0\n", p);
  if (KILL_HERE()) {
    if (g_kill_mode != 0) r_unlinkat(dirfd, path, flags);
    die();
  }
  return r_unlinkat(dirfd, path, flags);
}
int rename(const char *a, const char *b) {
  init();
  char pa[PATHLEN], pb[PATHLEN];
  int sa = abs_path(AT_FDCWD, a, pa), sb = abs_path(AT_FDCWD, b, pb);
  if (!sa && !sb) return r_rename(a, b);
  if (pre_call("rename", sa ? pa : pb)) return -1;
  if (sa && is_prot(pa)) logf_("MODIFY rename_from %s 0 0\n", pa);
  if (sb && is_prot(pb)) logf_("MODIFY rename_to %s 0 0\n", pb);
  if (KILL_HERE()) {
    if (g_kill_mode != 0) r_rename(a, b);
    die();
  }
  return r_rename(a, b);
}
