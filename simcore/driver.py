"""Generic driver: isolated (forked) execution, parallel seed sweep, ddmin, replay,
known-findings matching, evidence."""
from __future__ import annotations

import json
import os
import select
import shutil
import signal
import sys
import time
import traceback

from . import env
from .rng import run_tag

KNOWN = []  # set by checks.run_check before the sweep (inherited by forked workers)
RUN_TIMEOUT = float(os.environ.get("VERIF_RUN_TIMEOUT", "900"))
MINIMISE_BUDGET = float(os.environ.get("VERIF_MINIMISE_BUDGET", "150"))


# ------------------------------------------------------------------ isolation


def exec_isolated(fn, timeout=RUN_TIMEOUT):
    """Run fn() in a forked child; returns (status, payload).

    status: ok | timeout | died | harness_error.  fn must return a JSON-able value.
    """
    r, w = os.pipe()
    sys.stdout.flush()
    sys.stderr.flush()
    pid = os.fork()
    if pid == 0:
        code = 0
        try:
            os.close(r)
            try:
                res = {"ok": fn()}
            except BaseException:
                res = {"harness_error": traceback.format_exc()}
                code = 3
            data = json.dumps(res).encode()
            with os.fdopen(w, "wb") as f:
                f.write(data)
        except BaseException:
            code = 4
        finally:
            os._exit(code)
    os.close(w)
    chunks = []
    deadline = time.monotonic() + timeout
    status = None
    while True:
        left = deadline - time.monotonic()
        if left <= 0:
            status = "timeout"
            break
        rl, _, _ = select.select([r], [], [], min(left, 1.0))
        if rl:
            b = os.read(r, 1 << 16)
            if not b:
                break
            chunks.append(b)
    os.close(r)
    if status == "timeout":
        try:
            os.kill(pid, signal.SIGKILL)
        except ProcessLookupError:
            pass
        os.waitpid(pid, 0)
        return "timeout", None
    _, st = os.waitpid(pid, 0)
    data = b"".join(chunks)
    if not data:
        return "died", {"wait_status": st}
    try:
        res = json.loads(data)
    except Exception:
        return "died", {"wait_status": st, "garbled": True}
    if "harness_error" in res:
        return "harness_error", res["harness_error"]
    return "ok", res["ok"]


class Scratch:
    def __init__(self, label: str):
        import tempfile

        # unique even if another PID namespace (a background run of the same checks) shares
        # the scratch file system and happens to use the same process id
        self.path = tempfile.mkdtemp(prefix=f"verif-{os.getpid()}-{label}-", dir=env.scratch_base())

    def sub(self, name: str) -> str:
        p = os.path.join(self.path, name)
        shutil.rmtree(p, ignore_errors=True)
        os.makedirs(p)
        return p

    def cleanup(self):
        shutil.rmtree(self.path, ignore_errors=True)


# ------------------------------------------------------------------ running cases


def run_case(engine, case, scratch_dir, timeout=RUN_TIMEOUT):
    """Execute one case in isolation. Returns a result dict (always)."""

    def fn():
        return engine.execute(case, scratch_dir)

    status, payload = exec_isolated(fn, timeout)
    if status == "ok":
        return payload
    if status == "harness_error":
        return {"harness_error": payload, "violations": []}
    if status == "timeout":
        return {"harness_error": f"wall-clock backstop ({timeout}s) hit", "violations": [], "timeout": True}
    return {"harness_error": f"run process died: {payload}", "violations": []}


def _worker(engine, prop, tier, seed, indices, scratch, outpath, stopfile):
    with open(outpath, "w") as out:
        for i in indices:
            if os.path.exists(stopfile):
                try:
                    lim = int(open(stopfile).read().strip() or "-1")
                except Exception:
                    lim = -1
                if i > lim:
                    break
            tag = run_tag(seed, prop, i)
            d = os.path.join(scratch, f"r{i}")
            os.makedirs(d, exist_ok=True)
            t0 = time.monotonic()

            def fn(tag=tag, d=d):
                case = engine.generate(prop, tag, tier)
                res = engine.execute(case, d)
                res["case"] = case
                return res

            tmo = getattr(engine, "timeouts", {}).get(tier, RUN_TIMEOUT)
            attempts = 0
            while True:
                attempts += 1
                status, payload = exec_isolated(fn, tmo)
                if status == "ok":
                    res = payload
                elif status == "harness_error":
                    res = {"harness_error": payload, "violations": []}
                elif status == "timeout":
                    res = {"harness_error": f"wall-clock backstop ({tmo}s) hit", "violations": []}
                else:
                    res = {"harness_error": f"run process died: {payload}", "violations": []}
                # a process of the simulation that was killed or starved from outside (SIGKILL by
                # the host, a wall-clock backstop on an overloaded machine) says nothing about the
                # code: the run is deterministic, so it is simply executed again; what is genuine
                # shows again
                env_fault = bool(res.get("harness_error")) and any(m in str(res["harness_error"]) for m in ("backstop", "timed out", "run process died", "killed from outside"))
                if env_fault and attempts < 3:
                    shutil.rmtree(d, ignore_errors=True)
                    os.makedirs(d, exist_ok=True)
                    time.sleep(2.0 * attempts)
                    continue
                break
            if attempts > 1:
                res.setdefault("probes", {})["rerun_after_environment_fault"] = attempts - 1
            res["index"] = i
            res["wall"] = time.monotonic() - t0
            shutil.rmtree(d, ignore_errors=True)
            mine = [v for v in res.get("violations", []) if v.get("prop") == prop]
            mine_unknown = [v for v in mine if not match_known(v, KNOWN)]
            if mine_unknown or res.get("harness_error"):
                # tell everybody to finish only indices <= i
                try:
                    cur = int(open(stopfile).read().strip()) if os.path.exists(stopfile) else None
                except Exception:
                    cur = None
                if cur is None or i < cur:
                    with open(stopfile + ".tmp%d" % os.getpid(), "w") as f:
                        f.write(str(i))
                    os.replace(stopfile + ".tmp%d" % os.getpid(), stopfile)
            if not mine and not res.get("harness_error") and not res.get("keep_case"):
                # keep the case only for a few samples to bound memory
                if i >= 4:
                    res.pop("case", None)
            out.write(json.dumps(res) + "\n")
            out.flush()


def sweep(engine, prop, tier, seed, nruns, workers, wall_cap=None, stop_on_violation=True, start=0):
    """Run cases start..start+nruns-1 on `workers` processes. Returns list of results by index."""
    scratch = Scratch(f"{prop}-sweep")
    stopfile = os.path.join(scratch.path, "STOP")
    pids = []
    outs = []
    t0 = time.monotonic()
    try:
        for w in range(workers):
            indices = list(range(start + w, start + nruns, workers))
            outpath = os.path.join(scratch.path, f"w{w}.jsonl")
            outs.append(outpath)
            sys.stdout.flush()
            pid = os.fork()
            if pid == 0:
                code = 0
                try:
                    _worker(engine, prop, tier, seed, indices, scratch.path, outpath, stopfile if stop_on_violation else stopfile + ".never")
                except BaseException:
                    traceback.print_exc()
                    code = 5
                finally:
                    os._exit(code)
            pids.append(pid)
        capped = False
        alive = set(pids)
        while alive:
            for pid in list(alive):
                p, st = os.waitpid(pid, os.WNOHANG)
                if p:
                    alive.discard(pid)
            if alive:
                if wall_cap and not capped and time.monotonic() - t0 > wall_cap:
                    capped = True
                    # ask workers to stop at the next run boundary
                    realstop = stopfile if stop_on_violation else stopfile + ".never"
                    if not os.path.exists(realstop):
                        with open(realstop, "w") as f:
                            f.write("-1")
                time.sleep(0.02)
        results = []
        for o in outs:
            if os.path.exists(o):
                with open(o) as f:
                    for line in f:
                        line = line.strip()
                        if line:
                            results.append(json.loads(line))
        results.sort(key=lambda r: r["index"])
        return results, capped
    finally:
        for pid in pids:
            try:
                os.kill(pid, 0)
                os.kill(pid, signal.SIGKILL)
            except (ProcessLookupError, PermissionError):
                pass
        scratch.cleanup()


# ------------------------------------------------------------------ minimisation


def _fails_same(engine, case, key, scratch_dir):
    res = run_case(engine, case, scratch_dir, timeout=300)
    for v in res.get("violations", []):
        if (v.get("prop"), v.get("oracle")) == key:
            return v
    return None


def _parallel_first(engine, cands, key, scratch, maxpar=16):
    """Evaluate candidate cases concurrently; return (index, violation) of the first
    (lowest index) that still fails, else None."""
    for base in range(0, len(cands), maxpar):
        batch = cands[base : base + maxpar]
        procs = []
        for j, c in enumerate(batch):
            d = os.path.join(scratch.path, f"m{j}")
            shutil.rmtree(d, ignore_errors=True)
            os.makedirs(d)
            r, w = os.pipe()
            pid = os.fork()
            if pid == 0:
                os.close(r)
                code = 0
                try:
                    v = _fails_same(engine, c, key, d)
                    os.write(w, json.dumps(v).encode())
                except BaseException:
                    code = 1
                finally:
                    os._exit(code)
            os.close(w)
            procs.append((pid, r, d))
        found = None
        for j, (pid, r, d) in enumerate(procs):
            data = b""
            while True:
                b = os.read(r, 1 << 16)
                if not b:
                    break
                data += b
            os.close(r)
            os.waitpid(pid, 0)
            shutil.rmtree(d, ignore_errors=True)
            if found is None and data:
                try:
                    v = json.loads(data)
                except Exception:
                    v = None
                if v:
                    found = (base + j, v)
        if found:
            return found
    return None


def minimise(engine, case, key, budget=MINIMISE_BUDGET):
    """ddmin over case['ops'] keeping (prop, oracle) failing; then engine.simplify passes."""
    scratch = Scratch("min")
    t0 = time.monotonic()
    try:
        ops = list(case["ops"])

        def mk(o):
            c = dict(case)
            c["ops"] = o
            return c

        n = 2
        while len(ops) >= 2 and time.monotonic() - t0 < budget:
            chunk = max(1, len(ops) // n)
            cands = []
            for s in range(0, len(ops), chunk):
                cands.append(ops[:s] + ops[s + chunk :])
            hit = _parallel_first(engine, [mk(c) for c in cands], key, scratch)
            if hit:
                ops = cands[hit[0]]
                n = max(n - 1, 2)
            else:
                if chunk == 1:
                    break
                n = min(len(ops), n * 2)
        case = mk(ops)
        # argument simplification
        simp = getattr(engine, "simplify", None)
        rounds = 0
        while simp and time.monotonic() - t0 < budget and rounds < 6:
            rounds += 1
            cands = list(simp(case))
            if not cands:
                break
            hit = _parallel_first(engine, cands, key, scratch)
            if not hit:
                break
            case = cands[hit[0]]
        return case
    finally:
        scratch.cleanup()


# ------------------------------------------------------------------ findings


def load_known():
    p = os.path.join(env.VERIF_HOME, "known_findings.json")
    if not os.path.exists(p):
        return []
    with open(p) as f:
        return json.load(f).get("findings", [])


def match_known(v, known):
    for k in known:
        if k.get("property") == v.get("prop") and k.get("oracle") == v.get("oracle") and k.get("shape") == v.get("shape"):
            return k
    return None
