"""Value specs (JSON) <-> Python/h5py values, normalisation and canonical tree dumps."""
from __future__ import annotations

import base64
import hashlib
import json

import h5py
import numpy as np


# ------------------------------------------------------------ value specs
# A value spec is a JSON list [kind, payload]:
#   ["i", 5]  ["f", 1.5]  ["b", true]  ["s", "text"]  ["y", "<b64>"] (bytes, NUL free)
#   ["v", "<b64>"] (np.void)  ["a", [[1,2],[3,4]]] (int array)  ["e"] (h5py.Empty)


def mk(spec):
    k = spec[0]
    if k == "i":
        return int(spec[1])
    if k == "f":
        return float(spec[1])
    if k == "b":
        return bool(spec[1])
    if k == "s":
        return str(spec[1])
    if k == "y":
        return base64.b64decode(spec[1])
    if k == "v":
        return np.void(base64.b64decode(spec[1]))
    if k == "a":
        return np.array(spec[1], dtype=np.int64)
    if k == "z":
        import random

        return np.frombuffer(random.Random(int(spec[2])).randbytes(int(spec[1])), dtype=np.uint8)
    if k == "e":
        return h5py.Empty("f")
    if k == "O":
        return np.array([base64.b64decode(x) for x in spec[1]], dtype=object)
    if k == "o":
        return object()  # not storable: the assignment must fail without any effect
    raise ValueError(f"bad value spec {spec!r}")


def b64(b: bytes) -> str:
    return base64.b64encode(b).decode("ascii")


# ------------------------------------------------------------ normalisation


def norm(v):
    """What a reader sees, independent of the stored representation.

    bytes-like/str -> ["s", hex]; np.void -> ["v", hex]; ints/floats/bools by kind and
    value; arrays by element kind, shape and content; Empty -> ["e"].
    """
    if isinstance(v, h5py.Empty):
        return ["e"]
    if isinstance(v, (bytes, np.bytes_)):
        return ["s", bytes(v).hex()]
    if isinstance(v, (str, np.str_)):
        return ["s", str(v).encode("utf-8", "surrogateescape").hex()]
    if isinstance(v, np.void):
        b = v.tobytes()
        if len(b) > 200000:
            return ["V", len(b), hashlib.sha256(b).hexdigest()]
        return ["v", b.hex()]
    if isinstance(v, (bool, np.bool_)):
        return ["b", bool(v)]
    if isinstance(v, (int, np.integer)):
        return ["i", int(v)]
    if isinstance(v, (float, np.floating)):
        return ["f", repr(float(v))]
    if isinstance(v, np.ndarray):
        if v.size > 4096:
            return ["A", v.dtype.kind, list(v.shape), hashlib.sha256(np.ascontiguousarray(v).tobytes()).hexdigest()]
        if v.dtype.kind in "iu":
            return ["a", "i", list(v.shape), v.astype(np.int64).ravel().tolist()]
        if v.dtype.kind == "f":
            return ["a", "f", list(v.shape), [repr(float(x)) for x in v.ravel()]]
        if v.dtype.kind == "b":
            return ["a", "b", list(v.shape), [bool(x) for x in v.ravel()]]
        return ["a", v.dtype.kind, list(v.shape), [norm(x) for x in v.ravel().tolist()]]
    if isinstance(v, (list, tuple)):
        return ["l", [norm(x) for x in v]]
    return ["?", repr(type(v)), repr(v)]


def norm_spec(spec):
    """Normal form of the value a spec denotes (without touching HDF5)."""
    return norm(mk(spec))


# ------------------------------------------------------------ tree dumps


def _attrs_dump(node, errors, path):
    out = {}
    try:
        items = list(node.attrs.items())
    except Exception as e:  # pragma: no cover - reported as observation
        errors.append(["attrs.items", path, type(e).__name__])
        return out
    for k, v in items:
        out[k] = norm(v)
    return out


def dump_tree(root, hide=None):
    """Canonical dump {path: ["g", attrs] | ["d", value, attrs]} via the public API.

    Works for h5py.File/Group and IH5Record/IH5Group alike.  `hide(path)` filters
    paths (used to hide metador_* bookkeeping for user views).
    Returns (dump, errors) where errors lists observation calls that raised.
    """
    out = {}
    errors = []
    out["/"] = ["g", _attrs_dump(root, errors, "/")]
    seen = []

    def visit(name, node):
        seen.append((name, node))

    try:
        root.visititems(visit)
    except Exception as e:
        errors.append(["visititems", "/", type(e).__name__, str(e)[:100]])
    base = root.name if root.name != "/" else ""
    for name, node in seen:
        p = "/" + name if not name.startswith("/") else name
        if hide and hide(p):
            continue
        try:
            if hasattr(node, "keys") and not hasattr(node, "ndim"):
                out[p] = ["g", _attrs_dump(node, errors, p)]
            else:
                try:
                    val = norm(node[()])
                except Exception as e:
                    errors.append(["read", p, type(e).__name__, str(e)[:100]])
                    val = ["!"]
                out[p] = ["d", val, _attrs_dump(node, errors, p)]
        except Exception as e:  # pragma: no cover
            errors.append(["node", p, type(e).__name__, str(e)[:100]])
    return out, errors


def dump_digest(d) -> str:
    return hashlib.sha256(json.dumps(d, sort_keys=True).encode()).hexdigest()[:16]


def diff_dumps(a, b, limit=6):
    """Human-readable differences between two dumps."""
    out = []
    for p in sorted(set(a) | set(b)):
        if p not in a:
            out.append(f"+{p} (only in second: {b[p][0]})")
        elif p not in b:
            out.append(f"-{p} (only in first: {a[p][0]})")
        elif a[p] != b[p]:
            out.append(f"~{p}: {json.dumps(a[p])[:120]} != {json.dumps(b[p])[:120]}")
        if len(out) >= limit:
            break
    return out
