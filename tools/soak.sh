#!/bin/bash
# usage: tools/soak.sh <first seed> <last seed> [props...]   (quick tier of each check per seed)
a=$1; b=$2; shift 2
props=${@:-C01 C02 C03 C04 C05 C10 C11 C19 C06 C07 C08 C09 C15 C17 C20}
for s in $(seq $a $b); do
  for p in $props; do
    out=$(VERIF_SEED=$s ./check $p --tier quick 2>&1)
    rc=$?
    echo "seed=$s $p rc=$rc $(echo "$out" | tail -1)"
    if [ $rc -ne 0 ]; then echo "$out" | grep -E "VIOLATION|HARNESS|violation found|minimised|^  " | head -12; fi
  done
done
