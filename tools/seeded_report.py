"""Writes DESIGN.md section 17 (between markers) from selftest/results.json and seeded/*/meta.json."""
import json, os, re
HERE = os.path.dirname(os.path.dirname(os.path.abspath(__file__)))
res = json.load(open(os.path.join(HERE, "selftest", "results.json")))
import sys
sys.path.insert(0, HERE)
rows = []
sd = os.path.join(HERE, "seeded")
for name in sorted(os.listdir(sd)):
    mp = os.path.join(sd, name, "meta.json")
    if not os.path.exists(mp):
        continue
    meta = json.load(open(mp))
    readme = meta.get("needs_to_manifest", "")
    what = meta.get("summary")
    if not what:
        lines = [l.strip("# *-").strip() for l in readme.splitlines() if l.strip() and not l.startswith("```")]
        what = (lines[1] if len(lines) > 1 and len(lines[0]) < 40 else lines[0]) if lines else ""
    r = res.get(name, {"status": "not run"})
    if r["status"] == "killed":
        m = re.search(r"oracle (\S+)", r.get("evidence", ""))
        by = f"`{r['by_check']}` / {m.group(1) if m else '?'}" + ("" if r["by_check"] == meta["property"] else " (not by its own check)")
    else:
        by = "**" + r["status"] + "**"
    rows.append(f"| {name} | {what[:150].replace('|', '/')} | {by} |")
    meta["caught_by"] = r
    json.dump(meta, open(mp, "w"), indent=1)
cat = []
for k in sorted(res):
    if k.startswith("m-"):
        r = res[k]
        m = re.search(r"oracle (\S+)", r.get("evidence", ""))
        cat.append(f"| {k} | {('`' + r['by_check'] + '` / ' + (m.group(1) if m else '?')) if r['status'] == 'killed' else '**' + r['status'] + '**'} |")
seeded_res = [res.get(n, {"status": "not run"}) for n in sorted(os.listdir(sd)) if os.path.exists(os.path.join(sd, n, "meta.json"))]
own = sum(1 for n in sorted(os.listdir(sd)) if res.get(n, {}).get("status") == "killed" and res[n].get("by_check") == res[n].get("property"))
cnt = {}
for r in seeded_res:
    cnt[r["status"]] = cnt.get(r["status"], 0) + 1
summary = f"Seeded changes: {len(seeded_res)}; caught {cnt.get('killed', 0)} ({own} by the check of their own property, {cnt.get('killed', 0) - own} only by a sibling check), neutralised by a later repair {cnt.get('neutralised', 0)}, survived {cnt.get('survived', 0)}, not evaluated {cnt.get('not run', 0) + cnt.get('stale', 0)}."
text = "<!-- SEEDED-BEGIN -->\n" + summary + "\n\n| change | what it does (first line of its README) | caught by (quick tier, seed 0) |\n|---|---|---|\n" + "\n".join(rows) + "\n\nBuilt-in catalogue (`selftest/mutants.py`):\n\n| mutant | killed by |\n|---|---|\n" + "\n".join(cat) + "\n<!-- SEEDED-END -->"
p = os.path.join(HERE, "DESIGN.md")
s = open(p).read()
if "<!-- SEEDED-BEGIN -->" in s:
    s = re.sub(r"<!-- SEEDED-BEGIN -->.*<!-- SEEDED-END -->", lambda m: text, s, flags=re.S)
else:
    s += "\n" + text + "\n"
open(p, "w").write(s)
print("rows", len(rows), len(cat))
