"""Writes DESIGN.md section 17 (between markers) from selftest/results.json and seeded/*/meta.json."""
import json, os, re
HERE = os.path.dirname(os.path.dirname(os.path.abspath(__file__)))
res = json.load(open(os.path.join(HERE, "selftest", "results.json")))
import sys
sys.path.insert(0, HERE)
rows = []
sd = os.path.join(HERE, "seeded")
for name in sorted(os.listdir(sd)):
    mp = os.path.join(sd, name, "meta.json")
    if not os.path.exists(mp):
        continue
    meta = json.load(open(mp))
    readme = meta.get("needs_to_manifest", "")
    what = meta.get("summary")
    if not what:
        lines = [l.strip("# *-").strip() for l in readme.splitlines() if l.strip() and not l.startswith("```")]
        what = (lines[1] if len(lines) > 1 and len(lines[0]) < 40 else lines[0]) if lines else ""
    r = res.get(name, {"status": "not run"})
    if r["status"] == "killed":
        m = re.search(r"oracle (\S+)", r.get("evidence", ""))
        by = f"`{r['by_check']}` / {m.group(1) if m else '?'}" + ("" if r["by_check"] == meta["property"] else " (not by its own check)")
    else:
        by = "**" + r["status"] + "**"
    rows.append(f"| {name} | {what[:150].replace('|', '/')} | {by} |")
    meta["caught_by"] = r
    json.dump(meta, open(mp, "w"), indent=1)
cat = []
for k in sorted(res):
    if k.startswith("m-"):
        r = res[k]
        m = re.search(r"oracle (\S+)", r.get("evidence", ""))
        cat.append(f"| {k} | {('`' + r['by_check'] + '` / ' + (m.group(1) if m else '?')) if r['status'] == 'killed' else '**' + r['status'] + '**'} |")
text = "<!-- SEEDED-BEGIN -->\n| change | what it does (first line of its README) | caught by (quick tier, seed 0) |\n|---|---|---|\n" + "\n".join(rows) + "\n\nBuilt-in catalogue (`selftest/mutants.py`):\n\n| mutant | killed by |\n|---|---|\n" + "\n".join(cat) + "\n<!-- SEEDED-END -->"
p = os.path.join(HERE, "DESIGN.md")
s = open(p).read()
if "<!-- SEEDED-BEGIN -->" in s:
    s = re.sub(r"<!-- SEEDED-BEGIN -->.*<!-- SEEDED-END -->", lambda m: text, s, flags=re.S)
else:
    s += "\n" + text + "\n"
open(p, "w").write(s)
print("rows", len(rows), len(cat))
