"""Verify a sub-agent's seeded change and import it into /verif/seeded/<P>-<k>/.
usage: python3 tools/verify_seeded.py C09 1 [--skip-tests]"""
import json, os, re, shutil, subprocess, sys

P, k = sys.argv[1], sys.argv[2]
wt = f"/tmp/wt-{P}"
sd = f"{wt}/_seeded/{k}"
env = dict(os.environ, PYTHONPATH=f"{wt}/src")

def run(cmd, **kw):
    return subprocess.run(cmd, shell=True, capture_output=True, text=True, env=env, **kw)

run(f"git -C {wt} checkout -- src")
r0 = run(f"cd {sd} && timeout 300 /venv/bin/python demo.py")
ap = run(f"git -C {wt} apply {sd}/patch.diff")
if ap.returncode != 0:
    print("patch does not apply:", ap.stderr[-300:]); sys.exit(2)
r1 = run(f"cd {sd} && timeout 300 /venv/bin/python demo.py")
tests = "skipped"
if "--skip-tests" not in sys.argv:
    t = run(f"cd {wt} && timeout 900 /venv/bin/python -m pytest -q -p no:cacheprovider --timeout=900 --continue-on-collection-errors 2>&1 | tail -1")
    tests = t.stdout.strip()
imp = run(f"/venv/bin/python -c \"import numpy; numpy.cumproduct=numpy.cumprod; numpy.bool8=numpy.bool_; import metador_core.container, metador_core.ih5.container; import metador_core; print(metador_core.__file__)\"")
run(f"git -C {wt} checkout -- src")
ok = r0.returncode == 0 and r1.returncode != 0 and ("66 passed" in tests or tests == "skipped") and wt in imp.stdout
print(f"{P}-{k}: demo unpatched rc={r0.returncode}, patched rc={r1.returncode}, tests: {tests}, import: {imp.stdout.strip()[-60:]} -> {'OK' if ok else 'REJECT'}")
if not ok:
    print(r0.stdout[-300:], r0.stderr[-300:], r1.stdout[-300:], r1.stderr[-300:]); sys.exit(1)
dst = f"/verif/seeded/{P}-{k}"
os.makedirs(dst, exist_ok=True)
for f in ("patch.diff", "demo.py", "README.md"):
    if os.path.exists(f"{sd}/{f}"):
        shutil.copyfile(f"{sd}/{f}", f"{dst}/{f}")
readme = open(f"{sd}/README.md").read() if os.path.exists(f"{sd}/README.md") else ""
meta = {
    "property": P,
    "origin": "written by an independent sub-agent that saw only the property text and a scratch worktree",
    "needs_to_manifest": readme[:1500],
    "verified": {
        "demo_unpatched_exit": r0.returncode,
        "demo_patched_exit": r1.returncode,
        "demo_patched_output_tail": (r1.stdout + r1.stderr)[-400:],
        "baseline_tests_with_patch": tests,
        "commands": [f"PYTHONPATH={wt}/src /venv/bin/python demo.py (before and after git apply patch.diff)", "pytest -q -p no:cacheprovider --timeout=900 --continue-on-collection-errors (with patch)"],
    },
}
if os.path.exists(f"{dst}/meta.json"):
    old = json.load(open(f"{dst}/meta.json"))
    for key in ("detect_with", "caught_by", "notes"):
        if key in old: meta[key] = old[key]
json.dump(meta, open(f"{dst}/meta.json", "w"), indent=1)
print("imported to", dst)
