#!/bin/bash
# usage: tools/mutants_streams.sh <dir with a copy of /verif> : evaluates every catalogue and seeded
# change in three parallel streams (results in <dir>/selftest/results.json, logs <dir>/mut-*.log)
D=${1:?copy dir}
cd "$D" || exit 2
ids() { for p in "$@"; do ls seeded | grep "^$p-" | sort -t- -k2 -n; done; }
( for m in $(python3 - <<'PY'
import re
print(" ".join(re.findall(r'^    \("(m-[a-z0-9-]+)"', open("selftest/mutants.py").read(), re.M)))
PY
); do ./check selftest-mutants $m 2>&1 | grep "^MUTANT"; done; for i in $(ids C01 C02 C03 C04 C05 C10 C11 C19); do ./check selftest-mutants $i 2>&1 | grep "^MUTANT"; done ) > mut-1.log 2>&1 &
( for i in $(ids C06 C07 C08 C09); do ./check selftest-mutants $i 2>&1 | grep "^MUTANT"; done ) > mut-2.log 2>&1 &
( for i in $(ids C15 C17 C20); do ./check selftest-mutants $i 2>&1 | grep "^MUTANT"; done ) > mut-3.log 2>&1 &
wait
