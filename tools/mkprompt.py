"""Write the brief for an independent sub-agent that seeds two property-breaking changes.
usage: python3 tools/mkprompt.py Cxx k1 k2 > prompt.txt   (the agent sees the property text only)"""
import json, sys

P, k1, k2 = sys.argv[1], sys.argv[2], sys.argv[3]
prop = next(json.loads(l) for l in open("/verif/properties.jsonl") if json.loads(l)["id"] == P)
wt = f"/tmp/wt-{P}"
mech = "; ".join(f"{m['name']} ({m['where']})" for m in prop["anchors"].get("mechanism", []))
print(f"""You are working in a scratch git worktree of the Python library *metador-core* at {wt} (a copy of the repository at its current HEAD). Work ONLY inside {wt}. Do not modify /repo and do not read or touch /verif (it is off limits for this task).

## Goal
Produce TWO different, small, realistic source changes ("seeded defects") to the library code under {wt}/src/metador_core, each of which BREAKS the semantic property quoted below, while
 (a) the library still imports and basically works, and
 (b) the existing pinned test suite still passes exactly as before (66 passing tests; many other test modules fail at collection already - that is the baseline and not your concern).
Each change should look like a plausible regression a developer could introduce (an off-by-one, a dropped branch, a wrong condition, a missing call, a reordered step, an optimisation that is wrong in a corner case, a cache that is not invalidated, two sites that each look fine alone...). The two changes must use different mechanisms / code sites, and must break the property AS STATED (not a neighbouring behaviour).

Do NOT use `git stash` (the stash is shared between all worktrees of the repository and other people work in sibling worktrees); to switch between changed and unchanged code use `git diff > /tmp/wt-{P}/_my.diff`, `git apply -R`, `git apply`.

This is a late round: the obvious sites (wrong comparison in the main code path, dropped guard at the top of a method, a cache without invalidation) have been used already. Look for something different, e.g.: refusal / error paths that have a side effect before they refuse; two objects for the same thing (two node handles, two records of one file set, two containers, a kept object used after the container changed); operations called with an object instead of a path (or vice versa); unusual but documented argument forms; clean-up code; code that is only reached on the second call in one process; sub-classes overriding one of two methods that belong together.

IMPORTANT: prefer changes that need something *specific* to manifest - a particular multi-step sequence of operations, a patch boundary or close/reopen at a particular point, a crash or storage fault at a particular point, an unusual input, state kept in one process across calls, or two cooperating sites - NOT changes that ordinary use would expose at once (e.g. not "every read returns garbage").

## The property
Property {P}: {prop['title']}

Statement: {prop['statement']}

Quantifier ({', '.join(prop['quantifier']['over'])}): {prop['quantifier']['text']}

Code the property is anchored in: {', '.join(prop['anchors']['files'])}
Mechanisms meant to make it hold: {mech}


## Environment facts
- Python: /venv/bin/python (3.12). The package is installed in editable mode from /repo, so to run YOUR worktree's code always set PYTHONPATH: `PYTHONPATH={wt}/src /venv/bin/python ...` and verify with `python -c "import metador_core; print(metador_core.__file__)"` that it prints a path below {wt}.
- In this sandbox `import metador_core.schema` (and hence ih5.record, container, ...) only works after this shim, put it at the top of every script BEFORE importing metador_core:
    import numpy; numpy.cumproduct = numpy.cumprod; numpy.bool8 = numpy.bool_
- Baseline test command (must still give 66 passed with your change applied):
    cd {wt} && PYTHONPATH={wt}/src /venv/bin/python -m pytest -q -p no:cacheprovider --timeout=900 --continue-on-collection-errors 2>&1 | tail -3
- No network. Use /dev/shm or tempfile for scratch files; wrap anything that might hang in `timeout 120`.
- IH5 basics: `from metador_core.ih5.container import IH5Record, IH5MFRecord`; `IH5Record(path_prefix, "w")` creates, `.commit_patch()`, `.create_patch()`, `.discard_patch()`, `.close()`, `.merge_files(target)`; h5py-like group API. `from metador_core.container import MetadorContainer`; `MetadorContainer(h5py.File(...))` or `MetadorContainer(IH5Record(...))`; node.meta[...] for metadata. Installed schemas e.g. "core.file", "core.dir", "core.bib", "core.person".

## Deliverables (for k = {k1} and {k2})
 {wt}/_seeded/k/patch.diff   - `git diff` of the change against HEAD (must apply with `git apply` on a clean checkout)
 {wt}/_seeded/k/demo.py      - a small standalone program demonstrating the breakage: run as `PYTHONPATH=<src> /venv/bin/python demo.py`; it must exit 0 (property holds) on the UNCHANGED code and exit non-zero with a clear message on the changed code. It must be deterministic and finish in < 60 s.
 {wt}/_seeded/k/README.md    - 5-10 lines: what was changed, why it breaks the property, what exactly is needed for it to manifest, and confirmation of the commands you ran (baseline tests with the patch: N passed; demo without patch: exit 0; demo with patch: exit !=0).
Verify all of that yourself. At the end restore the worktree sources (`git -C {wt} checkout -- src`), leaving only the _seeded directory as untracked files. Finish with a short summary of the two changes (and mention anything in the UNCHANGED code that already seems to violate the property).
""")
