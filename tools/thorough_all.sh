#!/bin/bash
# usage: tools/thorough_all.sh [cap seconds] [props...]  (thorough tier of each check, one after the other)
cap=${1:-1500}; shift
props=${@:-C01 C02 C03 C05 C10 C11 C04 C19 C06 C07 C08 C09 C15 C17 C20}
for p in $props; do
  out=$(VERIF_WALL_CAP=$cap ./check $p --tier thorough 2>&1)
  rc=$?
  echo "$p rc=$rc $(echo "$out" | tail -1)"
  if [ $rc -ne 0 ]; then echo "$out" | grep -E "VIOLATION|HARNESS|violation found|minimised|^  " | head -20; fi
done
