"""Regenerates MANIFEST.json from the table below (run: python3 tools/mkmanifest.py)."""
import json
import os

HERE = os.path.dirname(os.path.dirname(os.path.abspath(__file__)))

NA = [
    ("C12", "serialise/parse round trip is a pure function of (schema class, instance); no storage, schedule, clock or fault participates, so a simulator adds nothing over plain input generation"),
    ("C13", "child-instance acceptance and soundness of is_subtype/check_types are pure functions of types and values; nothing to schedule or to fault"),
    ("C14", "the merge algebra (identity, associativity, non-mutation) is a pure function of three in-memory values; no I/O, restart or interleaving exists for it to depend on"),
    ("C16", "ordering, supports, version tables and name codecs are pure; 'any registration order' is permutation-invariance of a pure function, not a schedule the system meets at run time"),
    ("C18", "DirDiff maps two in-memory dicts to a tree; the only nondeterminism inside (set iteration order) is neutralised by the sort in nodes() and cannot be scheduled in-process"),
]

TRUST = "real metador_core from /repo/src on real h5py/libhdf5 and tmpfs; trusted: the harness' reference model (plain h5py.File + life-cycle model), the LD_PRELOAD shim, sampling (a clean batch is evidence, not proof); logical steps instead of simulated time (the code has no timers)"

CHECKS = {
    "C01": ("ih5store", "exploration", "5.C01",
            "seeded simulation of patching histories (boundary placement decided by the simulator) against a plain h5py tree compared after every operation; ddmin-minimised replay files",
            "Seeded search over histories x patch-boundary placements (3-60 ops, up to ~12 containers, exotic keys, replace-then-touch chains, copies into own subtree); after every op the complete IH5 view, other access paths and the success/failure of the op are compared with a plain HDF5 tree. Sampling, not proof."),
    "C02": ("ih5store", "exploration", "5.C02",
            "seeded simulation of record life cycles with a libc write monitor on committed files, hashes after every op and re-opening of historic file sets",
            "Every operation of seeded histories (patching, discard, merge, close/reopen in all non-truncating modes, sibling records, IH5Record and IH5MFRecord) runs under an LD_PRELOAD monitor that reports any write/truncate/unlink/rename that would change a committed container or manifest, plus sha256 of every committed file after every op and read-only reopening of the file set of every earlier commit."),
    "C03": ("ih5store", "exploration", "5.C03",
            "seeded restart schedules (close/reopen points, 6 open modes x 5 on-disk situations, file-list permutations, permuted discovery order, prefix-related sibling records) against a life-cycle model and the reference tree",
            "Restart points, open modes, by-name vs by-list opening, list permutations and directory enumeration order are drawn by the simulator; the outcome table of the mode contract, the directory listing/hashes before and after each open, discard semantics and the reopened view are checked against a model."),
    "C04": ("fileset", "fault_enumeration", "5.C04",
            "storage/shipping fault enumeration on closed records: every structural mutation plus sampled (thorough: exhaustive for small records) payload corruptions, each opened in its own process and compared with an independent chain predicate",
            "For each seeded record all structural faults (remove/duplicate each element, drop newest j, swap/add fork or foreign container, rotations, manifest faults) are enumerated and payload faults (bit flip, insert, remove, truncate, extend) are sampled; expected accept/reject and the expected view come from the simulator's own record of how the files were made. Also: the same corruptions below an unfinished (uncommitted) patch, base-less sets merged through allow_baseless, and a phase that keeps one process alive across a first open and a later corruption (state cached between opens)."),
    "C05": ("ih5store", "exploration", "5.C05",
            "seeded simulation with merge ('compaction') at arbitrary points of a history, follow-up patches of the source applied to the merged container, source frame conditions",
            "merge_files is issued at seeded points (committed -> must succeed, uncommitted -> must be refused); merged tree, identity fields, manifest, unchanged source (ih5_meta, view, bytes via the C02 monitor) and [merged]+later source patches are checked."),
    "C11": ("ih5crash", "fault_enumeration", "5.C11",
            "process-kill injection inside libc write calls (k-th mutating call, torn prefix) in forked epochs, recovery oracles over the crash image; thorough: all crash points of each sampled history enumerated + all torn user-block prefixes",
            "The writer process is killed by the LD_PRELOAD shim at the k-th write/pwrite/ftruncate/open/unlink under the record directory, optionally after a partial write; the next epoch checks that committed files are byte-identical, the committed subset opens with the last acknowledged state, and the complete set fails / is recognisably uncommitted / shows the in-flight commit. Thorough tier enumerates every crash point of each sampled history."),
    "C10": ("sites", "exploration", "5.C10",
            "two-site simulation (repository site with the real record, packer site with manifest-only stub) over a lossy/duplicating/delaying transport; stub-made patch vs direct update",
            "A stub is created from the latest manifest, an existence-based update history is applied once via the stub and once directly to a clone; skeleton equality, data absence in the stub, merge refusal, acceptance of the patch on the real chain, view equality, manifest/user-block consistency after every commit and persistence of manifest extensions are checked; transport faults (delay past an advance of the real record, duplication, corruption) must be refused. Site L keeps its working directory between updates (stale sidecars), a stub patch may be finished in a second session, and the stub set must not merge through either record class."),
    "C06": ("container", "exploration", "5.C06",
            "seeded container histories on three drivers in lock-step; independent raw-tree TOC oracle after every operation; fresh container vs incremental index after reopen",
            "After every owner operation (successful or failed) an oracle that shares no code with container/interface.py walks the raw tree and checks the TOC<->metadata bijection, schema/package records and absence of empty bookkeeping groups; after reopen a fresh MetadorContainer must report the same index."),
    "C07": ("container", "exploration", "5.C07",
            "seeded container histories with a dict model of attached metadata; sampled get/query probes compared with a brute-force scan using the plugin system's parent paths",
            "Model node -> {schema -> object}; after every op sampled meta[...] / get(parent) / in / keys and query(schema, version) over start nodes are compared with the model (objects compared code point by code point). Metadata operations also go through node.meta interfaces that are kept over several operations and mixed with fresh ones."),
    "C08": ("container", "exploration", "5.C08",
            "seeded histories mixing data and metadata ops; listings compared with a plain tree that saw only the user ops; reserved-path probes over every path-taking protocol method",
            "Visibility: keys/len/iter/in/visit/visititems of every group equal those of the plain reference; rejection: every path-taking method x reserved path variants (str and bytes spellings, link values, group-object destinations with reserved names) must raise and leave the raw tree unchanged."),
    "C09": ("container", "exploration", "5.C09",
            "the same seeded op sequence through h5py.File, IH5Record and IH5MFRecord drivers in lock-step with patch boundaries/reopens on the IH5 realisations",
            "Per-step success flags, user-visible dump, metadata JSON per node and query answers must agree on the three drivers; includes unstorable values, lookups through datasets, replace-then-relocate and attribute overwrite-then-delete chains inside one patch, copies of node objects of a second container."),
    "C15": ("container", "exploration", "5.C15",
            "restricted actors holding long-lived handles while the owner mutates the container; navigation chains x attempts",
            "Restricted actors (every flag combination) obtain handles at seeded moments, compose navigation chains and attempt mutating/reading/upward operations; acl monotonicity, refusal with unchanged raw tree, no data leak through skel_only (including the sequence protocol of datasets), no escape from local_only are checked; read-only grants are placed on datasets and above nodes with metadata and followed by a sweep of every mutation."),
    "C17": ("container", "exploration", "5.C17",
            "pack_file of boundary-length byte strings followed by seeded container histories on three drivers",
            "node[()] bytes, contentSize and sha256 are compared with the source file at every later step; the deletion-marker value must be rejected on IH5 drivers in every spelling with the TOC unchanged. Sources keep a pinned mtime and reuse three paths; embedded files are copied in from a second container; file metadata found at a node must describe the node's bytes."),
    "C20": ("container", "exploration", "5.C20",
            "seeded container histories over installed and harness-registered schema families; embedded schema info vs plugin system, Draft-7 validation of every stored object",
            "After every op and on the reopened container: embedded JSON Schema exists and validates each stored object, parent chain and provider equal the plugin system's."),
    "C19": ("dirscan", "exploration", "5.C19",
            "directory hashing under a simulated hostile file system: seeded enumeration order, timestamps and short reads; model trees and one-edit pairs",
            "dir_hashsums is run on materialised model trees with a permuting rglob and short-read streams; results must equal the model's expected tree, hence equal models give equal trees and one-edit pairs differ (also under the library's own tree comparison); edits include case-only and NFC/NFD renames and retargets and in-place edits that keep size and mtime; out-of-directory links must be rejected."),
}

def main():
    import sys
    sys.path.insert(0, HERE)
    present = []
    for p in sorted(CHECKS):
        eng = CHECKS[p][0]
        mod = {"ih5store": "sims/ih5store.py", "ih5crash": "sims/ih5crash.py", "fileset": "sims/fileset.py", "sites": "sims/sites.py", "container": "sims/container.py", "dirscan": "sims/dirscan.py"}[eng]
        if os.path.exists(os.path.join(HERE, mod)):
            present.append(p)
    checks = []
    for p in present:
        eng, lvl, ref, tech, text = CHECKS[p]
        checks.append({
            "property_id": p,
            "quick_cmd": f"./check {p} --tier quick",
            "thorough_cmd": f"./check {p} --tier thorough",
            "evidence_file": f"evidence/{p}.json",
            "replay_cmd_template": "./check replay {path}",
            "engine": eng,
            "level_claimed": {"category": lvl, "text": text, "design_ref": ref},
            "level_note": TRUST,
            "technique": "deterministic simulation with fault injection: " + tech,
        })
    na = [{"property_id": p, "reason": r} for p, r in NA]
    for p in sorted(CHECKS):
        if p not in present:
            na.append({"property_id": p, "reason": "check not built yet (claimed in DESIGN.md; will be registered when its engine exists)"})
    engines = {}
    for p in present:
        engines.setdefault(CHECKS[p][0], []).append(p)
    man = {
        "version": 1,
        "setup_cmd": "mkdir -p build && gcc -O2 -shared -fPIC -o build/libsimio.so simcore/shim/simio.c -ldl",
        "hooks": {
            "guard": "METADOR_CORE_VERIF",
            "enable": "no source hooks: every seam is a module/class attribute or an argument the code already takes (uuid1, find_files, Path.rglob, open) or libc (LD_PRELOAD shim); checks import /repo/src of the current working tree directly",
            "baseline_off_cmd": "cd /repo && /venv/bin/python -m pytest -ra -q -p no:cacheprovider --timeout=900 --continue-on-collection-errors",
            "source_commits": [],
            "add_only": True,
        },
        "engines": [{"name": e, "path": f"sims/{e}.py", "serves_properties": ps, "kind_free_text": "seeded simulator, real code on real h5py/tmpfs, fault injection via LD_PRELOAD shim / file-set mutation"} for e, ps in sorted(engines.items())],
        "checks": checks,
        "not_applicable": na,
        "notes": "exit codes: 0 = explored everything, no unlisted violation; 1 = VIOLATION line(s); 2 = harness error (never a violation). VERIF_SEED selects the seed. Known findings: known_findings.json (matched by oracle+shape).",
    }
    with open(os.path.join(HERE, "MANIFEST.json"), "w") as f:
        json.dump(man, f, indent=1)
    print("wrote MANIFEST.json with", len(checks), "checks")

main()
