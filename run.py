"""Entry point (started by ./check)."""
import argparse
import os
import sys

HERE = os.path.dirname(os.path.abspath(__file__))
sys.path.insert(0, HERE)


def main():
    ap = argparse.ArgumentParser()
    ap.add_argument("cmd")
    ap.add_argument("arg", nargs="?")
    ap.add_argument("--tier", default=os.environ.get("VERIF_TIER", "quick"))
    ap.add_argument("--runs", type=int, default=None)
    ap.add_argument("--workers", type=int, default=None)
    ap.add_argument("--quiet", action="store_true")
    ap.add_argument("--seeds", type=int, default=None)
    a = ap.parse_args()
    seed = int(os.environ.get("VERIF_SEED", "0") or 0)
    from simcore import env

    env.import_sut()
    if a.cmd == "replay":
        from simcore import checks

        rep, res = checks.replay_file(a.arg, quiet=a.quiet)
        if rep is None:
            return 2
        return 1 if res.get("violations") else 0
    if a.cmd == "regress":
        # replays of repaired defects and corrected false alarms: none may fail any more
        import glob

        from simcore import checks

        bad = 0
        files = sorted(glob.glob(os.path.join(HERE, "regress", "*.json")))
        for f in files:
            rep, res = checks.replay_file(f, quiet=True)
            st = "harness-error" if rep is None else ("FAILS" if res.get("violations") else "ok")
            if st != "ok":
                bad += 1
                print(f"regress {os.path.basename(f)}: {st} {[v['prop'] + '/' + v['oracle'] for v in res.get('violations', [])]}")
        print(f"regress: {len(files) - bad}/{len(files)} replays pass")
        return 1 if bad else 0
    if a.cmd == "selftest-determinism":
        from selftest import determinism

        return determinism.main(a.seeds or 200, a.arg)
    if a.cmd == "selftest-mutants":
        from selftest import mutants

        return mutants.main(a.arg)
    if a.cmd == "gen":  # print a generated case (debugging aid)
        import json

        from simcore import checks
        from simcore.rng import run_tag

        engines, props = checks.registry()
        prop, idx = a.arg.split(":")
        e = engines[props[prop][0]]
        print(json.dumps(e.generate(prop, run_tag(seed, prop, int(idx)), a.tier), indent=1))
        return 0
    from simcore import checks

    if a.tier not in ("quick", "thorough"):
        a.tier = "quick"
    return checks.run_check(a.cmd, tier=a.tier, seed=seed, nruns=a.runs, workers=a.workers)


if __name__ == "__main__":
    try:
        rc = main()
    except SystemExit:
        raise
    except BaseException:
        import traceback

        traceback.print_exc()
        print("HARNESS-ERROR: uncaught exception in the driver")
        rc = 2
    sys.stdout.flush()
    os._exit(rc if isinstance(rc, int) else 2)
