"""Engine A, crash profile (C11): the writing process dies at arbitrary points.

A case is an engine-A op list with additional ops
    {"op":"crash","k":K,"mode":M,"arg":A}
which arm the LD_PRELOAD shim: the K-th mutating libc call (write/pwrite/ftruncate/
open(O_CREAT)/unlink/rename below sut/) from now on kills the process, after writing only
a prefix of the data (mode 0: nothing, 1: half, 2: all but one byte, 3: A bytes, 4: the
complete call).  K == 0 kills at once (API-call boundary).  Every epoch runs in its own
forked process; after a death the next epoch first examines the crash image (in forked
grandchildren, libhdf5 is not hardened against torn files), applies the operator's recovery
(remove what was never acknowledged as committed) and continues with the remaining ops.
"""
from __future__ import annotations

import hashlib
import json
import os
import re
import shutil

from simcore import driver, env
from simcore import treeops as T
from simcore import values as V
from simcore.rng import Rng
from sims import ih5store as A


def rec_files(sut, name):
    """All files in sut that syntactically belong to record `name` (own regex)."""
    out = []
    pat = re.compile(r"^" + re.escape(name) + r"(\.p[0-9]+)?\.ih5(mf\.json)?$")
    for fn in sorted(os.listdir(sut)):
        if pat.match(fn):
            out.append(fn)
    return out


def probe_open(world, r, files=None, mode="r", discard=False, directory=None):
    """Open a (crash) image in a forked process. Returns dict(status=..., ...)."""
    cls = world.klass(r)
    sut = directory or world.sut

    def fn():
        from pathlib import Path

        env.shim().reset()
        try:
            arg = [Path(os.path.join(sut, f)) for f in files] if files is not None else os.path.join(sut, r.name)
            obj = cls(arg, mode)
        except Exception as e:
            return {"status": "raises", "exc": type(e).__name__, "msg": str(e)[:200]}
        out = {"status": "opens"}
        try:
            meta = obj.ih5_meta
            out["n"] = len(meta)
            out["hashes"] = [m.hdf5_hashsum is not None for m in meta]
            if discard:
                try:
                    obj.discard_patch()
                    out["discarded"] = True
                except Exception as e:
                    out["discarded"] = False
                    out["discard_exc"] = f"{type(e).__name__}: {e}"[:200]
                out["n_after"] = len(obj.ih5_meta)
            try:
                dump, errs = V.dump_tree(obj)
                out["dump"] = dump
                out["errs"] = errs
            except Exception as e:
                out["dump"] = None
                out["errs"] = [["dump", type(e).__name__]]
            if not discard and not all(out["hashes"]):
                # an interrupted patch must stay recognisable: merging must not launder it into
                # a cleanly opening record (read-only sessions do not count it as writable)
                import shutil
                import tempfile

                td = tempfile.mkdtemp(prefix="verif-merge-probe-", dir=env.scratch_base())
                try:
                    obj.merge_files(Path(os.path.join(td, "laundered")))
                    out["merged_uncommitted"] = True
                except Exception:
                    out["merged_uncommitted"] = False
                finally:
                    shutil.rmtree(td, ignore_errors=True)
        finally:
            try:
                obj.close(commit=False)
            except Exception:
                pass
        return out

    status, payload = driver.exec_isolated(fn, timeout=60)
    if status == "ok":
        return payload
    if status == "died":
        st = payload.get("wait_status") if isinstance(payload, dict) else None
        if isinstance(st, int) and os.WIFSIGNALED(st) and os.WTERMSIG(st) == 9:
            raise env.HarnessError("open probe was killed from outside (SIGKILL)")
        return {"status": "hard-death", "detail": payload}
    if status == "timeout":
        # 60 s for opening a few small files: the host is starved, not the code slow
        raise env.HarnessError("open probe timed out")
    return {"status": "harness_error", "detail": payload}


class Recovery:
    """Oracles (1)-(3) of C11 and the operator's recovery policy, per record."""

    def __init__(self, world):
        self.w = world
        self.classes = {}

    def count(self, k):
        self.w.probe("crash_image:" + k)

    def run(self):
        w = self.w
        for idx in range(len(A.REC_NAMES)):
            if idx in w.recs or rec_files(w.sut, A.REC_NAMES[idx]):
                self.recover_record(w.rec(idx))

    def recover_record(self, r):
        w = self.w
        if r.truncating:
            # the crash hit the explicitly destructive mode 'w': nothing is promised
            self.count("during-truncate")
            for f in rec_files(w.sut, r.name):
                os.unlink(os.path.join(w.sut, f))
            r.disk, r.commits, r.protected, r.inflight, r.truncating, r.merged_from = [], [], {}, None, False, None
            return
        acked = [c["file"] for c in r.disk if c["committed"]]
        on_disk = rec_files(w.sut, r.name)
        containers = [f for f in on_disk if f.endswith(".ih5")]
        last = r.commits[-1] if r.commits else None
        # (1) committed files byte-identical
        for p, h in sorted(r.protected.items()):
            if not os.path.exists(p):
                raise A.Violation("C11", "committed-file-lost", f"{os.path.basename(p)} (committed) is gone after the crash", shape="lost")
            if A.sha_file(p) != h:
                raise A.Violation("C11", "committed-file-damaged", f"{os.path.basename(p)} (committed) changed by the crashed process", shape="damaged")
        # (2) the committed subset alone opens and shows the last acknowledged state
        if acked:
            d = os.path.join(w.tmp, "subset")
            shutil.rmtree(d, ignore_errors=True)
            os.makedirs(d)
            for f in acked:
                shutil.copyfile(os.path.join(w.sut, f), os.path.join(d, f))
                m = os.path.join(w.sut, f + "mf.json")
                if os.path.exists(m):
                    shutil.copyfile(m, os.path.join(d, f + "mf.json"))
            res = probe_open(w, r, files=acked, directory=d)
            shutil.rmtree(d, ignore_errors=True)
            if res["status"] != "opens":
                raise A.Violation("C11", "committed-subset-unopenable", f"committed containers {acked} alone do not open after the crash: {res}", shape=res["status"])
            if res.get("errs") or res.get("dump") != last["dump"]:
                raise A.Violation("C11", "committed-subset-view", f"committed containers alone show another state than the last acknowledged commit: {res.get('errs') or V.diff_dumps(last['dump'], res.get('dump') or {})}")
        # (3) the complete set
        extra = [f for f in containers if f not in acked]
        retro = False
        if not containers:
            self.count("no-files")
        else:
            res = probe_open(w, r)
            st = res["status"]
            if st in ("raises", "hard-death", "timeout"):
                self.count("fails-to-open" if st == "raises" else st)
                if not extra:
                    raise A.Violation("C11", "committed-set-unopenable", f"only committed containers exist, but the record does not open by name: {res}")
            elif st == "opens":
                n, hashes = res["n"], res["hashes"]
                if not all(hashes):
                    self.count("opens-uncommitted")
                    if res.get("merged_uncommitted"):
                        raise A.Violation("C11", "uncommitted-state-merged", "the complete set opens with the interrupted patch marked uncommitted, but merge_files turns it into a cleanly opening single container (a state that was never committed)", shape="merge")
                    if n != len(acked) + 1 or not all(hashes[:-1]):
                        raise A.Violation("C11", "uncommitted-shape", f"record opens with {n} containers (hash flags {hashes}), acknowledged commits: {len(acked)}")
                    if len(acked) >= 1:
                        res2 = probe_open(w, r, mode="r+", discard=True)
                        if res2["status"] != "opens" or not res2.get("discarded"):
                            # a torn HDF5 file may be unopenable for writing; the statement does not
                            # promise that discard_patch works on it (the operator removes the file)
                            self.count("interrupted-patch-not-discardable-via-api")
                        elif res2.get("errs") or res2.get("dump") != last["dump"]:
                            raise A.Violation("C11", "discard-after-crash-view", f"after discarding the interrupted patch the view is not the last committed state: {res2.get('errs') or V.diff_dumps(last['dump'], res2.get('dump') or {})}")
                else:
                    if n == len(acked):
                        self.count("opens-committed-old")
                        if extra:
                            # e.g. a file that find_files does not associate; must not happen
                            raise A.Violation("C11", "extra-file-ignored", f"files {extra} exist but the record opens cleanly without them")
                        if acked and (res.get("errs") or res.get("dump") != last["dump"]):
                            raise A.Violation("C11", "clean-open-unwritten-state", f"record opens cleanly with a state that is not the last acknowledged commit: {V.diff_dumps(last['dump'], res.get('dump') or {})}")
                    elif n == len(acked) + 1 and r.inflight is not None:
                        self.count("opens-committed-new")
                        if res.get("errs") or res.get("dump") != r.inflight["dump"]:
                            raise A.Violation("C11", "clean-open-unwritten-state", f"record opens fully committed, but shows neither the old nor the in-flight state: {res.get('errs') or V.diff_dumps(r.inflight['dump'], res.get('dump') or {})}")
                        retro = True
                        if r.cls == "mf":
                            # for a manifest record the committed new state includes a manifest that
                            # matches the link in the newest container
                            from metador_core.ih5.manifest import IH5UBExtManifest
                            from metador_core.ih5.record import IH5UserBlock

                            newest = os.path.join(w.sut, r.inflight["files"][-1])
                            ext = IH5UBExtManifest.get(IH5UserBlock.load(newest))
                            mfile = newest + "mf.json"
                            if ext is None or not os.path.exists(mfile) or "sha256:" + hashlib.sha256(open(mfile, "rb").read()).hexdigest() != ext.manifest_hashsum:
                                raise A.Violation("C11", "committed-new-state-incomplete", f"after the crash the IH5MFRecord opens as fully committed with the new patch, but {'the newest container links no manifest' if ext is None else 'its manifest is missing or does not match'} (the interrupted commit is not recognisable and its manifest/extensions are lost)", shape="manifest")
                    else:
                        raise A.Violation("C11", "clean-open-unwritten-state", f"record opens cleanly with {n} committed containers, but only {len(acked)} commits were acknowledged and {'a' if r.inflight else 'no'} commit was in flight", shape="count")
            else:
                raise env.HarnessError(f"probe_open: {res}")
        # ---- recovery policy (operator): drop everything that was never acknowledged
        import h5py

        if r.ref is not None:
            try:
                r.ref.close()
            except Exception:
                pass
            r.ref = None
        if retro:
            r.disk = [{"file": f, "committed": True} for f in r.inflight["files"]]
            n = r.ncommitted()
            os.replace(w.ref_path(r) + ".pending", w.ref_snapshot_path(r, n))
            r.commits.append({"files": list(r.inflight["files"]), "dump": r.inflight["dump"], "n": n})
            r.exts = None
            acked = [c["file"] for c in r.disk]
            w.probe("retroactive_ack")
        else:
            r.disk = [{"file": f, "committed": True} for f in acked]
        r.inflight = None
        keep = set(acked)
        for f in rec_files(w.sut, r.name):
            base = f[: -len("mf.json")] if f.endswith("mf.json") else f
            if base not in keep:
                os.unlink(os.path.join(w.sut, f))
        if not acked:
            r.commits = []
            r.merged_from = None
        else:
            n = r.ncommitted()
            shutil.copyfile(w.ref_snapshot_path(r, n), w.ref_path(r))
            r.ref = h5py.File(w.ref_path(r), "r+")
        w.protect(r)


def arm(world, op):
    sh = world.sh
    k = int(op.get("k", 0))
    if k <= 0:
        world.count_fault("crash_api_boundary")
        world.save_carry()
        world.flush_fault_counters()
        os._exit(137)
    sh.reset()
    sh.set_kill(k, int(op.get("mode", 0)), int(op.get("arg", 0)))


class IH5CrashEngine:
    name = "ih5crash"
    rule = {
        "C11": "seeded patching histories (engine A ops, 1-2 records, IH5Record/IH5MFRecord) with 1-4 crash ops; quick: sampled (k-th mutating libc call, torn mode); thorough: per history every mutating call x torn modes {0,half,n-1,complete} enumerated after a counting pass, plus all prefix lengths of every user-block write synthesised in memory; non-trivial = at least one crash fired after a commit had been acknowledged; distinct = digest of (op kinds, crash points fired, crash-image classes)"
    }
    assumptions = {
        "C11": [
            "process death, not power loss: page-cache contents survive (the code never fsyncs and the property says 'process dies')",
            "the kill happens inside libc write-family calls of the process (CPython and libhdf5 both go through them); writes are torn at byte granularity",
            "after a crash the operator removes container files that were never acknowledged as committed (or uses discard_patch when the set opens)",
        ]
    }

    timeouts = {"thorough": 2400}
    detcheck_runs = {"thorough": 1}
    MAX_POINTS = 1200

    def __init__(self):
        self.base = A.IH5StoreEngine()

    # ---------------------------------------------------------------- generation

    def generate(self, prop, tag, tier):
        rng = Rng(tag)
        g = rng["crash"]
        case = self.base.generate("C02", tag, tier, mix=False)  # 'immutable' profile: lifecycle + merges
        case["engine"] = self.name
        case["prop"] = prop
        cfg = case["cfg"]
        cfg["profile"] = "crash"
        # shorter histories, fewer records
        ops = case["ops"][: g.randint(4, 30)]
        recs = cfg["recs"]
        if tier == "thorough" and prop == "C11":
            case["ops"] = ops
            case["enumerate"] = True
            return case
        ncr = g.choice([1, 1, 2, 3, 4])
        for _ in range(ncr):
            pos = g.randint(1, len(ops))
            k = 0 if g.random() < 0.2 else g.choice([1, 1, 2, 3, 4, 5, 6, 8, 10, 13, 17, 22, 30])
            mode = g.choice([0, 1, 2, 4, 4])
            cr = {"op": "crash", "k": k, "mode": mode}
            if k > 0 and g.random() < 0.25:
                cr = {"op": "ioerr", "k": k, "errno": g.choice([28, 5]), "sticky": g.random() < 0.6}
            reopen = [{"op": "open", "rec": i, "mode": g.choice(["r+", "a"]), "by": "name"} for i in recs]
            # place the crash, and somewhat later (after the window) the re-opens
            gap = g.randint(1, 6)
            ops[pos:pos] = [cr]
            ins = min(len(ops), pos + 1 + gap)
            ops[ins:ins] = reopen
        # make sure something happens after the last crash
        tail = []
        for i in recs:
            tail.append({"op": "open", "rec": i, "mode": "a", "by": "name"})
            tail.append({"op": "set_ds", "rec": i, "base": "/", "path": "after_crash", "val": ["i", 424242]})
            tail.append({"op": "commit", "rec": i})
        case["ops"] = ops + tail
        return case

    # ---------------------------------------------------------------- execution

    def execute(self, case, scratch):
        if case.get("enumerate"):
            return self.execute_enumeration(case, scratch)
        return self.execute_single(case, scratch)

    def execute_single(self, case, scratch, trace=False):
        ops = case["ops"]
        cfg = dict(case.get("cfg", {}))
        cfg["carry"] = True
        start = 0
        epoch = 0
        agg = {"violations": [], "faults": {}, "probes": {}, "steps": 0, "log": [], "crashes": [], "calls": {}}
        progress = os.path.join(scratch, "progress")
        statsf = os.path.join(scratch, "faultstats.json")
        while True:
            def fn(start=start, epoch=epoch):
                return self.run_epoch(case, cfg, scratch, start, epoch, trace)

            status, payload = driver.exec_isolated(fn, timeout=120)
            if status == "ok":
                self.merge(agg, payload)
                break
            if status == "harness_error":
                raise env.HarnessError(payload)
            if status == "timeout":
                raise env.HarnessError("epoch timed out")
            # died: expected if a crash was armed
            st = payload.get("wait_status", 0)
            code = os.waitstatus_to_exitcode(st) if isinstance(st, int) else None
            try:
                at = int(open(progress).read().strip())
            except Exception:
                raise env.HarnessError(f"epoch died before making progress: {payload}")
            if code == -9:
                # SIGKILL can only come from outside the simulation (the shim ends a process with
                # exit status 137): host trouble, not an observation about the code
                raise env.HarnessError(f"epoch process was killed from outside (SIGKILL) while executing op {at}")
            if code != 137:
                agg["violations"].append({"prop": "C11", "oracle": "process-died", "detail": f"process died with status {code} while executing op {at} ({ops[at]['op']}) in epoch {epoch}", "shape": str(code), "step": at})
                break
            if os.path.exists(statsf):
                try:
                    self.merge(agg, json.load(open(statsf)))
                    os.unlink(statsf)
                except Exception:
                    pass
            agg["crashes"].append(at)
            agg["faults"]["crash_fired"] = agg["faults"].get("crash_fired", 0) + 1
            start = at + 1
            epoch += 1
            if epoch > 12:
                raise env.HarnessError("too many epochs")
        kinds = [o["op"] for o in ops]
        classes = sorted(k for k in agg["probes"] if k.startswith("crash_image:"))
        sig = hashlib.sha256(json.dumps([kinds, agg["crashes"], classes]).encode()).hexdigest()[:16]
        return {
            "violations": agg["violations"],
            "faults": agg["faults"],
            "probes": agg["probes"],
            "steps": agg["steps"],
            "log_digest": hashlib.sha256(json.dumps(agg["log"]).encode()).hexdigest()[:16],
            "sig": sig,
            "nontrivial": bool(agg["probes"].get("crash_after_commit")),
            "calls": agg["calls"],
        }

    @staticmethod
    def merge(agg, res):
        agg["violations"] += res.get("violations", [])
        for k in ("faults", "probes"):
            for a, b in (res.get(k) or {}).items():
                agg[k][a] = agg[k].get(a, 0) + b
        agg["steps"] += res.get("steps", 0)
        agg["log"] += res.get("log", [])
        for a, b in (res.get("calls") or {}).items():
            agg["calls"][a] = b

    def run_epoch(self, case, cfg, scratch, start, epoch, trace):
        ops = case["ops"]
        w = A.World(scratch, cfg, f"{case.get('tag', 'replay')}/e{epoch}")
        progress = os.path.join(scratch, "progress")
        statsf = os.path.join(scratch, "faultstats.json")

        def flush_fault_counters():
            with open(statsf, "w") as f:
                json.dump({"faults": w.faults, "probes": w.probes, "steps": w.steps, "log": log}, f)

        w.flush_fault_counters = flush_fault_counters
        viol = []
        log = []
        calls = {}
        try:
            try:
                w.load_carry()
                for r in w.recs.values():
                    for p in r.protected:
                        if w.monitor:
                            w.sh.protect(p)
                if epoch > 0:
                    if any(r.commits for r in w.recs.values()):
                        w.probe("crash_after_commit")
                    Recovery(w).run()
                    w.save_carry()
                    log.append(["recovered", epoch])
                else:
                    # fresh world: forget reference files of an earlier use of the scratch dir
                    pass
                armed = False
                for i in range(start, len(ops)):
                    op = ops[i]
                    with open(progress, "w") as f:
                        f.write(str(i))
                    if op["op"] == "crash":
                        if trace:
                            continue
                        if op.get("k", 0) > 0:
                            w.count_fault("crash_in_write_armed")
                        flush_fault_counters()
                        arm(w, op)
                        armed = True
                        continue
                    if op["op"] == "ioerr":
                        # disk error (ENOSPC/EIO) at the k-th mutating call of the next operation,
                        # then the process gives up (dies) at the next API boundary
                        if trace or i + 1 >= len(ops) or ops[i + 1]["op"] in ("crash", "ioerr"):
                            continue
                        w.count_fault("enospc" if op.get("errno", 28) == 28 else "eio")
                        w.sh.reset()
                        w.sh.set_err(int(op["k"]), int(op.get("errno", 28)), bool(op.get("sticky", True)))
                        with open(progress, "w") as f:
                            f.write(str(i + 1))
                        w.io_fault_active = True
                        try:
                            w.step(i + 1, ops[i + 1])
                        except (A.Violation, A.SimRunaway):
                            pass  # under an injected I/O error only C02/C11 are judged (by the next epoch)
                        except Exception:
                            pass
                        fired = any(e and e[0] == "ERR" for e in w.sh.drain())
                        if fired:
                            w.probe("io_error_fired")
                        w.sh.set_err(0, 0, False)
                        flush_fault_counters()
                        os._exit(137)
                    if trace:
                        w.sh.reset()
                        w.sh.set_trace(True)
                    if armed:
                        flush_fault_counters()
                    out = w.step(i, op)
                    if trace:
                        w.sh.set_trace(False)
                        evs = w.call_events + [e for e in w.sh.drain() if e and e[0] == "CALL"]
                        w.call_events = []
                        calls[str(i)] = [[e[2], os.path.basename(e[3])] for e in evs]
                    log.append([i, op["op"], out])
                w.sh.reset()
                w.finish()
                log.append(["finish"])
            except A.Violation as e:
                v = dict(e.v)
                v["step"] = len(log)
                viol.append(v)
                if epoch > 0 and v["prop"] != "C11":
                    v2 = dict(v)
                    v2["oracle"] = f"post-crash:{v['prop']}/{v['oracle']}"
                    v2["prop"] = "C11"
                    viol.append(v2)
            except A.SimRunaway as e:
                viol.append({"prop": "C01", "oracle": "no-progress", "detail": str(e), "shape": "runaway", "step": len(log)})
        finally:
            w.shutdown()
        return {"violations": viol, "faults": w.faults, "probes": w.probes, "steps": w.steps, "log": log, "calls": calls}

    # ---------------------------------------------------------------- enumeration (thorough)

    def execute_enumeration(self, case, scratch):
        """For one history: every mutating call of every op x torn modes, plus API boundaries."""
        base = dict(case)
        base.pop("enumerate", None)
        base["ops"] = [o for o in case["ops"] if o["op"] != "crash"]
        recs = case["cfg"]["recs"]
        tail = []
        for i in recs:
            tail.append({"op": "open", "rec": i, "mode": "a", "by": "name"})
            tail.append({"op": "set_ds", "rec": i, "base": "/", "path": "after_crash", "val": ["i", 424242]})
            tail.append({"op": "commit", "rec": i})
        d0 = os.path.join(scratch, "count")
        os.makedirs(d0)
        res0 = self.execute_single(base, d0, trace=True)
        shutil.rmtree(d0, ignore_errors=True)
        agg = {"violations": list(res0["violations"]), "faults": {}, "probes": {}, "steps": res0["steps"]}
        points = []
        if not res0["violations"]:
            for i, op in enumerate(base["ops"]):
                points.append((i, 0, 0, 0))  # API boundary before op i
                cl = res0["calls"].get(str(i), [])
                for j, (kind, fn) in enumerate(cl, start=1):
                    if kind in ("write", "pwrite", "writev"):
                        for mode in (0, 1, 2, 4):
                            points.append((i, j, mode, 0))
                        if kind == "write" and fn.endswith(".ih5"):
                            for arg in (1, 7, 8, 9, 16, 40, 100, 150, 200, 250, 300, 350, 400, 450):
                                points.append((i, j, 3, arg))
                    else:
                        points.append((i, j, 0, 0))
                        points.append((i, j, 4, 0))
        if len(points) > self.MAX_POINTS:
            stride = len(points) / self.MAX_POINTS
            agg["probes"]["crash_points_not_run_due_to_cap"] = len(points) - self.MAX_POINTS
            points = [points[int(x * stride)] for x in range(self.MAX_POINTS)]
        n = 0
        sigs = set()
        for (i, j, mode, arg) in points:
            c = dict(base)
            ops = list(base["ops"])
            ops[i:i] = [{"op": "crash", "k": j, "mode": mode, "arg": arg}]
            c["ops"] = ops + tail
            d = os.path.join(scratch, f"p{n}")
            os.makedirs(d)
            res = self.execute_single(c, d)
            shutil.rmtree(d, ignore_errors=True)
            n += 1
            for k in ("faults", "probes"):
                for a, b in res[k].items():
                    agg[k][a] = agg[k].get(a, 0) + b
            agg["steps"] += res["steps"]
            sigs.add(res["sig"])
            mine = [v for v in res["violations"] if v["prop"] == "C11"]
            if mine:
                v = dict(mine[0])
                v["replay_case"] = c
                agg["violations"].append(v)
                break
        ub = self.userblock_prefixes()
        for v in ub.pop("violations"):
            agg["violations"].append(v)
        for a, b in ub.items():
            agg["probes"][a] = agg["probes"].get(a, 0) + b
        agg["probes"]["crash_points_enumerated"] = n
        kinds = [o["op"] for o in base["ops"]]
        return {
            "violations": agg["violations"],
            "faults": agg["faults"],
            "probes": agg["probes"],
            "steps": agg["steps"],
            "log_digest": hashlib.sha256(json.dumps([kinds, n]).encode()).hexdigest()[:16],
            "sig": hashlib.sha256(json.dumps([kinds, sorted(sigs)]).encode()).hexdigest()[:16],
            "nontrivial": n > 0 and bool(agg["probes"].get("crash_after_commit")),
            "subcases": n,
        }

    # ---------------------------------------------------------------- torn user blocks in memory

    def userblock_prefixes(self):
        """All prefix lengths of the final user-block write: new prefix + old suffix."""
        import io

        from metador_core.ih5.manifest import IH5UBExtManifest
        from metador_core.ih5.record import FORMAT_MAGIC_STR, IH5UserBlock

        out = {"violations": [], "torn_userblock_prefixes": 0, "torn_userblock_parsed_old": 0, "torn_userblock_parsed_new": 0, "torn_userblock_rejected": 0}
        env.install_uuid_seam()
        env.UUIDS.reseed("ub")
        old = IH5UserBlock.create(prev=None)
        variants = []
        new = old.copy(deep=True)
        new.hdf5_hashsum = "sha256:" + "ab" * 32
        variants.append((old, new))
        # patch container with manifest extension (MF commit rewrites ub_exts as well)
        p_old = IH5UserBlock.create(prev=old)
        p_new = p_old.copy(deep=True)
        p_new.hdf5_hashsum = "sha256:" + "0f" * 32
        IH5UBExtManifest(is_stub_container=False, manifest_uuid=env.UUIDS(), manifest_hashsum="sha256:" + "cd" * 32).update(p_new)
        variants.append((p_old, p_new))

        def raw(ub):
            return f"{FORMAT_MAGIC_STR}\n{ub._userblock_size}\n{ub.json()}".encode() + b"\x00"

        class F(io.BytesIO):
            pass

        for o, n in variants:
            ro, rn = raw(o), raw(n)
            blk_old = ro + b"\x00" * (1024 - len(ro))
            for p in range(0, len(rn) + 1):
                mixed = rn[:p] + blk_old[p:]
                out["torn_userblock_prefixes"] += 1
                import tempfile

                fd, tmp = tempfile.mkstemp(prefix="verif-ub-", suffix=".bin", dir=env.scratch_base())
                with os.fdopen(fd, "wb") as f:
                    f.write(mixed)
                try:
                    got = IH5UserBlock.load(tmp)
                except Exception:
                    out["torn_userblock_rejected"] += 1
                    continue
                finally:
                    os.unlink(tmp)
                if got.json() == o.json():
                    out["torn_userblock_parsed_old"] += 1
                elif got.json() == n.json():
                    out["torn_userblock_parsed_new"] += 1
                else:
                    out["violations"].append({"prop": "C11", "oracle": "torn-userblock-third-state", "detail": f"user block torn after {p} bytes parses as {got.json()} which is neither the old nor the new block", "shape": "ub", "replay_case": None})
                    return out
        return out
