"""Engine E `dirscan` (C19): directory hashing under a hostile file system.

A model tree (files of boundary sizes, in-directory symlinks in several spellings,
dangling links, empty and nested directories, optionally one link leaving the directory)
is materialised on tmpfs in a seeded creation order with seeded timestamps.  dir_hashsums
is called with a Path subclass whose rglob yields a seeded permutation, while
hashsums.open returns streams with seeded short reads.  The result must equal the tree
the model predicts; a second materialisation of the same (or a one-edit) model must give
an equal (or a different) tree.
"""
from __future__ import annotations

import hashlib
import json
import os
import random
import shutil
from pathlib import Path

from simcore import env
from simcore.rng import Rng

SIZES = [0, 1, 2, 63, 64, 65, 127, 128, 129, 4095, 4096, 4097, 8191, 8192, 8193, 65536]
NAMES = ["a", "b", "c", "d", "f1", "f2", "x.txt", "Y", "y", "data.bin", ".hidden", "sp ace", "ü", "u\u0308", "caf\u00e9", "cafe\u0301"]


def content(e):
    n = int(e.get("len", 0))
    r = random.Random(int(e.get("seed", 0)))
    kind = e.get("fill", "rand")
    if kind == "zeros":
        return b"\x00" * n
    if kind == "text":
        return (b"line %d\n" % int(e.get("seed", 0))) * (n // 7 + 1)
    return r.randbytes(n)


def resolve_model(ops):
    """ops (first wins) -> {relpath: entry}; implicit parent dirs are added as 'd'."""
    model = {}
    for e in ops:
        p = e["p"].strip("/")
        if not p or any(s in ("", ".", "..") for s in p.split("/")):
            continue
        if p in model:
            continue
        segs = p.split("/")
        ok = True
        for i in range(1, len(segs)):
            q = "/".join(segs[:i])
            if q in model and model[q]["t"] != "d":
                ok = False
        if not ok:
            continue
        for i in range(1, len(segs)):
            q = "/".join(segs[:i])
            model.setdefault(q, {"p": q, "t": "d"})
        if any(k.startswith(p + "/") for k in model) and e["t"] != "d":
            continue
        e = dict(e, p=p)
        if e["t"] == "x" and not e["to"].startswith("/"):
            nrm = os.path.normpath(os.path.join(os.path.dirname(p), e["to"]))
            if not nrm.startswith(".."):
                # does not leave the directory after all: an ordinary in-directory link
                e = {"p": p, "t": "l", "to": nrm, "sp": "raw", "raw": e["to"]}
        model[p] = e
    return model


OUTSIDE = "<outside>"


def link_text(e, base):
    """The text stored in the symlink (as materialise() writes it)."""
    if e["t"] == "x":
        return e["to"].replace("/@SIBLING@", base + "_old")
    if e.get("sp") == "raw":
        return e["raw"]
    return spell(base, e["p"], e["to"].strip("/"), e.get("sp", "rel"))


def model_realpath(model, start, text, base, hops=None):
    """os.path.realpath(join(base/start, text)) evaluated on the model.
    Returns the resolved path relative to base (list of segments), OUTSIDE, or None when the
    model cannot tell (loop, leaves the directory midway)."""
    hops = hops if hops is not None else [0]
    if text.startswith("/"):
        if text == base or text.startswith(base + "/"):
            cur, rest = [], [c for c in text[len(base):].split("/")]
        else:
            return OUTSIDE
    else:
        cur, rest = list(start), text.split("/")
    while rest:
        c = rest.pop(0)
        if c in ("", "."):
            continue
        if c == "..":
            if not cur:
                return None  # above the directory: may or may not come back - out of model
            cur.pop()
            continue
        cand = cur + [c]
        e = model.get("/".join(cand))
        if e is not None and e["t"] in ("l", "x"):
            hops[0] += 1
            if hops[0] > 30:
                return None
            t = link_text(e, base)
            if t.startswith("/"):
                if t == base or t.startswith(base + "/"):
                    cur, rest = [], t[len(base):].split("/") + rest
                else:
                    return OUTSIDE if not rest or True else None
            else:
                rest = t.split("/") + rest
            continue
        cur = cand
    return cur


def resolve_links(model, base):
    """Annotate link entries with their fully resolved target; drop what the model cannot
    predict (loops, detours above the directory)."""
    changed = True
    while changed:
        changed = False
        for p in sorted(model):
            e = model[p]
            if e["t"] not in ("l", "x"):
                continue
            r = model_realpath(model, p.split("/")[:-1], link_text(e, base), base)
            if r is None or (e["t"] == "x" and r != OUTSIDE and False):
                del model[p]
                changed = True
                break
            e["resolved"] = r
    return model


def expected_tree(model, alg="sha256"):
    """What the statement promises; returns ('raise',) if a link leaves the directory."""
    if any(e["t"] in ("l", "x") and e.get("resolved") == OUTSIDE for e in model.values()):
        return ("raise",)
    tree = {}
    for p in sorted(model):
        e = model[p]
        cur = tree
        segs = p.split("/")
        for s in segs[:-1]:
            cur = cur.setdefault(s, {})
        if e["t"] == "d":
            cur.setdefault(segs[-1], {})
        elif e["t"] == "f":
            cur[segs[-1]] = f"{alg}:" + hashlib.new(alg, content(e)).hexdigest()
        elif e["t"] in ("l", "x"):
            r = e.get("resolved")
            cur[segs[-1]] = "symlink:" + ("/".join(r) if r else ".")
    return ("tree", tree)


def spell(base, link, target, sp):
    ldir = os.path.dirname(link)
    rel = os.path.relpath(target, ldir or ".")
    if sp == "abs":
        return os.path.join(base, target)
    if sp == "dotdot" and ldir:
        return f"../{os.path.basename(ldir)}/{rel}"
    if sp == "dot":
        return "./" + rel
    return rel


def materialise(model, base, order_seed, time_seed):
    os.makedirs(base)
    # siblings whose names start with the name of the scanned directory
    for sib in ("_old", "2"):
        os.makedirs(base + sib, exist_ok=True)
        with open(os.path.join(base + sib, "secret"), "wb") as f:
            f.write(b"outside")
    paths = sorted(model)
    random.Random(order_seed).shuffle(paths)
    for p in paths:
        e = model[p]
        full = os.path.join(base, p)
        os.makedirs(os.path.dirname(full), exist_ok=True)
        if e["t"] == "d":
            os.makedirs(full, exist_ok=True)
        elif e["t"] == "f":
            with open(full, "wb") as f:
                f.write(content(e))
        elif e["t"] == "l":
            os.symlink(e["raw"] if e.get("sp") == "raw" else spell(base, p, e["to"].strip("/"), e.get("sp", "rel")), full)
        elif e["t"] == "x":
            os.symlink(e["to"].replace("/@SIBLING@", base + "_old"), full)
    r = random.Random(time_seed)
    for p in sorted(model):
        t = r.randrange(10**9, 2 * 10**9)
        try:
            os.utime(os.path.join(base, p), (t, t + r.randrange(100)), follow_symlinks=False)
        except Exception:
            pass


class ShortReader:
    def __init__(self, f, rnd, stats):
        self.f, self.rnd, self.stats = f, rnd, stats

    def read(self, n=-1):
        if n is None or n < 0:
            return self.f.read()
        k = self.rnd.randint(1, n) if n > 1 else n
        if k < n:
            self.stats["short_read"] = self.stats.get("short_read", 0) + 1
        return self.f.read(k)

    def seek(self, *a):
        return self.f.seek(*a)

    def __enter__(self):
        return self

    def __exit__(self, *a):
        self.f.close()

    def close(self):
        self.f.close()


def apply_edit(ops, edit):
    """One-edit variant of the op list (None -> same model)."""
    ops = json.loads(json.dumps(ops))
    if not edit:
        return ops
    k = edit["kind"]
    files = [i for i, e in enumerate(ops) if e["t"] == "f"]
    links = [i for i, e in enumerate(ops) if e["t"] == "l"]
    idx = edit.get("i", 0)
    if k == "flip" and files:
        e = ops[files[idx % len(files)]]
        e["seed"] = int(e.get("seed", 0)) + 1000003
        if int(e.get("len", 0)) == 0:
            e["len"] = 1
    elif k == "rename" and ops:
        e = ops[idx % len(ops)]
        e["p"] = e["p"] + "_renamed"
    elif k == "add":
        ops.append({"p": "added_entry", "t": "f", "len": 3, "seed": idx})
    elif k == "remove" and ops:
        del ops[idx % len(ops)]
    elif k == "file_to_dir" and files:
        e = ops[files[idx % len(files)]]
        e["t"] = "d"
    elif k == "file_to_link_equal" and files:
        # replace a regular file by a symlink to another file with equal content
        e = ops[files[idx % len(files)]]
        twin = dict(e, p="twin_of_" + e["p"].replace("/", "_"))
        ops.append(twin)
        e.update(t="l", to=twin["p"], sp="rel")
    elif k == "retarget_equal" and links:
        e = ops[links[idx % len(links)]]
        tgt = next((x for x in ops if x["p"].strip("/") == e["to"].strip("/") and x["t"] == "f"), None)
        if tgt:
            twin = dict(tgt, p="twin2_of_" + tgt["p"].replace("/", "_"))
            ops.append(twin)
            e["to"] = twin["p"]
    elif k == "retarget" and links:
        e = ops[links[idx % len(links)]]
        e["to"] = "some/other/target"
    elif k == "retarget_case" and links:
        # the link now names an entry that differs from the old target only in letter case
        e = ops[links[idx % len(links)]]
        tgt = next((x for x in ops if x["p"].strip("/") == e["to"].strip("/") and x["t"] == "f"), None)
        segs = e["to"].strip("/").split("/")
        if tgt and segs[-1].swapcase() != segs[-1]:
            twin_p = "/".join(segs[:-1] + [segs[-1].swapcase()])
            have = next((x for x in ops if x["p"].strip("/") == twin_p), None)
            if have is None:
                ops.append(dict(tgt, p=twin_p, seed=int(tgt.get("seed", 0)) + 7))
            if have is None or have["t"] == "f":
                e["to"] = twin_p
                e["sp"] = "rel"
    elif k == "rename_case" and ops:
        e = ops[idx % len(ops)]
        segs = e["p"].split("/")
        new_p = "/".join(segs[:-1] + [segs[-1].swapcase()])
        if new_p != e["p"] and not any(x["p"] == new_p or x["p"].startswith(new_p + "/") for x in ops):
            old_p = e["p"]
            for x in ops:
                if x["p"] == old_p or x["p"].startswith(old_p + "/"):
                    x["p"] = new_p + x["p"][len(old_p):]
    return ops


class DirscanEngine:
    name = "dirscan"
    rule = {
        "C19": "seeded model trees of 1-30 entries (files at hash-block boundary sizes, in-directory symlinks in relative / '..'-detour / './' / absolute spellings incl. links to directories and dangling links, empty and nested directories, sometimes one link leaving the directory), materialised twice in different creation orders with different timestamps, scanned with a permuting rglob and short-read streams; second copy optionally carries exactly one edit; non-trivial = tree with at least one symlink or nested directory and at least 3 entries; distinct = digest of the resolved model + edit"
    }
    assumptions = {
        "C19": [
            "link targets are never links themselves (the code normalises by fully resolving; chains would need the model to re-implement resolve())",
            "hash collisions are neglected",
        ]
    }
    components = {
        "real": ["metador_core.util.hashsums (working tree)", "kernel VFS (tmpfs), real symlinks and timestamps"],
        "stub": ["Path.rglob order (seeded permutation through a Path subclass)", "hashsums.open (streams with seeded short reads)"],
        "reference": ["model tree -> expected hashsum tree computed with hashlib"],
    }

    def generate(self, prop, tag, tier):
        rng = Rng(tag)
        g = rng["gen"]
        n = g.randint(1, 30) if g.random() < 0.8 else g.randint(1, 5)
        ops = []
        dirs = [""]
        files = []
        links = []
        for _ in range(n):
            d = g.choice(dirs)
            name = g.choice(NAMES) + (str(g.randrange(4)) if g.random() < 0.5 else "")
            p = (d + "/" + name).strip("/")
            roll = g.random()
            if roll < 0.45:
                e = {"p": p, "t": "f", "len": g.choice(SIZES + [g.randrange(0, 300)]), "seed": g.randrange(5), "fill": g.choice(["rand", "rand", "zeros", "text"])}
                files.append(p)
            elif roll < 0.65:
                e = {"p": p, "t": "d"}
                dirs.append(p)
            elif roll < 0.95:
                tr = g.random()
                if tr < 0.15 and links:
                    # through or onto another link (chains, '<link to dir>/..' detours)
                    l0 = g.choice(links)
                    to = g.choice([l0, l0 + "/" + g.choice(NAMES), l0 + "/../" + g.choice(NAMES), l0 + "/.."]).strip("/")
                elif tr < 0.55 and files:
                    to = g.choice(files)
                elif tr < 0.8 and len(dirs) > 1:
                    to = g.choice(dirs[1:])
                else:
                    to = (g.choice(dirs) + "/missing" + str(g.randrange(3))).strip("/")
                e = {"p": p, "t": "l", "to": to, "sp": g.choice(["rel", "dotdot", "abs", "dot"])}
                links.append(p)
            else:
                up = "../" * (p.count("/") + 1)
                e = {"p": p, "t": "x", "to": g.choice(["/etc/hostname", "/etc", "../outside_file", "/nonexistent/zz", up + "root_old/secret", up + "root2", "/@SIBLING@/secret", up + "rootx/missing"])}
            ops.append(e)
        edit = None
        if g.random() < 0.6:
            edit = {"kind": g.choice(["flip", "rename", "add", "remove", "file_to_dir", "file_to_link_equal", "retarget_equal", "retarget", "retarget_case", "rename_case"]), "i": g.randrange(50)}
        if edit and edit["kind"] == "retarget_case" and g.random() < 0.7 and not any(e["t"] == "x" for e in ops):
            # make sure there is a link whose target name has letters
            d = g.choice(dirs)
            fp = (d + "/" + g.choice(["Run.csv", "data", "Y", "readme.MD"]) + "_t").strip("/")
            lp = (g.choice(dirs) + "/current_t").strip("/")
            if not any(e["p"] in (fp, lp) for e in ops):
                ops.append({"p": fp, "t": "f", "len": g.choice([0, 5, 64, 65]), "seed": 1, "fill": "rand"})
                if g.random() < 0.8:
                    # the case twin exists on both sides: the retarget is then the only difference
                    tw = fp.split("/")
                    ops.append({"p": "/".join(tw[:-1] + [tw[-1].swapcase()]), "t": "f", "len": g.choice([0, 5, 64]), "seed": 2, "fill": "rand"})
                ops.append({"p": lp, "t": "l", "to": fp, "sp": g.choice(["rel", "dotdot", "abs", "dot"])})
                edit["i"] = len([e for e in ops if e["t"] == "l"]) - 1
        cfg = {"order": [g.randrange(10**6), g.randrange(10**6)], "times": [g.randrange(10**6), g.randrange(10**6)], "reads": g.randrange(10**6), "perm": g.randrange(10**6), "edit": edit, "inplace": g.random() < 0.6, "alg": g.choice(["sha256", "sha256", "sha512"])}
        return {"engine": self.name, "prop": prop, "tag": tag, "cfg": cfg, "ops": ops}

    def scan(self, base, cfg, stats, which):
        import metador_core.util.hashsums as H

        perm_rnd = random.Random(cfg["perm"] + which)
        read_rnd = random.Random(cfg["reads"] + which)

        class PermPath(type(Path())):
            def rglob(self, pattern, **kw):
                items = sorted(super().rglob(pattern, **kw))
                perm_rnd.shuffle(items)
                stats["enum_order"] = stats.get("enum_order", 0) + 1
                return iter(items)

        def fake_open(p, mode="r", *a, **k):
            f = open(p, mode, *a, **k)
            if "b" in mode and "r" in mode:
                return ShortReader(f, read_rnd, stats)
            return f

        H.open = fake_open
        try:
            try:
                return ("tree", H.dir_hashsums(PermPath(base), cfg.get("alg", "sha256")))
            except ValueError as e:
                return ("raise", str(e))
        finally:
            del H.open

    def execute(self, case, scratch):
        env.import_sut()
        cfg = case["cfg"]
        stats, probes, viol = {}, {}, []
        opsA = case["ops"]
        opsB = apply_edit(opsA, cfg.get("edit"))
        bases = [os.path.join(scratch, f"tree{which}", "root") for which in (0, 1)]
        mA = resolve_links(resolve_model(opsA), bases[0])
        mB = resolve_links(resolve_model(opsB), bases[1])
        eA, eB = expected_tree(mA, cfg.get("alg", "sha256")), expected_tree(mB, cfg.get("alg", "sha256"))
        chains = sum(1 for e in mA.values() if e["t"] == "l" and e.get("resolved") not in (None, OUTSIDE) and "/".join(e["resolved"]) != e["to"].strip("/"))
        if chains:
            probes["links_resolved_through_other_links"] = chains
        results = []
        for which, (m, exp) in enumerate(((mA, eA), (mB, eB))):
            base = bases[which]
            materialise(m, base, cfg["order"][which], cfg["times"][which])
            stats["mtime_skew"] = stats.get("mtime_skew", 0) + 1
            got = self.scan(base, cfg, stats, which)
            results.append(got)
            kinds = sorted(set(e["t"] for e in m.values()))
            for k in kinds:
                probes["entries_" + k] = probes.get("entries_" + k, 0) + sum(1 for e in m.values() if e["t"] == k)
            if exp[0] == "raise":
                probes["outside_link_trees"] = probes.get("outside_link_trees", 0) + 1
                if got[0] != "raise":
                    outs = [e["p"] + " -> " + e["to"] for e in m.values() if e["t"] == "x"]
                    viol.append({"prop": "C19", "oracle": "outside-link-accepted", "detail": f"a symlink leading outside the directory ({outs[:2]}) was not rejected", "shape": "outside"})
                    break
                continue
            if got[0] == "raise":
                viol.append({"prop": "C19", "oracle": "in-directory-tree-rejected", "detail": f"dir_hashsums raised for a tree without outside links: {got[1]}", "shape": "raise"})
                break
            if got[1] != exp[1]:
                viol.append({"prop": "C19", "oracle": "tree-differs-from-model", "detail": f"hashsum tree differs from the model: {self.diff(exp[1], got[1])}", "shape": self.shape(exp[1], got[1], m)})
                break
        if not viol and cfg.get("inplace") and eB[0] == "tree" and results[0][0] == "tree":
            # the same directory is edited in place and scanned again (packer update):
            # where content changes keep the size, the old timestamps are restored
            base = bases[0]
            mB0 = resolve_links(resolve_model(opsB), base)
            n_same = self.edit_in_place(base, mA, mB0, cfg)
            stats["inplace_rescan"] = stats.get("inplace_rescan", 0) + 1
            stats["inplace_same_size_and_mtime"] = stats.get("inplace_same_size_and_mtime", 0) + n_same
            got = self.scan(base, cfg, stats, 2)
            if got[0] != "tree" or got[1] != eB[1]:
                viol.append({"prop": "C19", "oracle": "rescan-after-edit", "detail": f"directory edited in place ({json.dumps(cfg.get('edit'))}, timestamps kept) and scanned again: {'raised' if got[0] != 'tree' else self.diff(eB[1], got[1])}", "shape": (cfg.get("edit") or {}).get("kind", "same")})
        if not viol and len(results) == 2 and results[0][0] == "tree" and results[1][0] == "tree":
            same_model = eA == eB
            same_tree = results[0][1] == results[1][1]
            probes["pairs_equal" if same_model else "pairs_one_edit"] = 1
            if same_model != same_tree:
                viol.append({"prop": "C19", "oracle": "pair-equality", "detail": f"models {'equal' if same_model else 'differ (' + json.dumps(cfg.get('edit')) + ')'} but hashsum trees {'equal' if same_tree else 'differ'}", "shape": (cfg.get("edit") or {}).get("kind", "same")})
            else:
                # the same question put to the library's own tree comparison (what the packer asks)
                from metador_core.util.diff import DirDiff

                try:
                    same_for_consumer = DirDiff.compare(results[0][1], results[1][1]).is_empty
                except Exception as e:
                    same_for_consumer = None
                    viol.append({"prop": "C19", "oracle": "pair-comparison-raised", "detail": f"DirDiff.compare of the two hashsum trees raised {type(e).__name__}: {e}", "shape": (cfg.get("edit") or {}).get("kind", "same")})
                probes["pairs_compared_by_dirdiff"] = 1
                if same_for_consumer is not None and same_for_consumer != same_model:
                    viol.append({"prop": "C19", "oracle": "pair-equality-dirdiff", "detail": f"models {'equal' if same_model else 'differ (' + json.dumps(cfg.get('edit')) + ')'} but the library's comparison of the two hashsum trees says {'no difference' if same_for_consumer else 'different'}", "shape": (cfg.get("edit") or {}).get("kind", "same")})
        sig = hashlib.sha256(json.dumps([sorted((p, e["t"], e.get("to"), e.get("len")) for p, e in mA.items()), cfg.get("edit")]).encode()).hexdigest()[:16]
        nontrivial = len(mA) >= 3 and any(e["t"] == "l" or "/" in p for p, e in mA.items())
        return {"violations": viol, "faults": stats, "probes": probes, "steps": len(mA) + len(mB), "log_digest": hashlib.sha256(json.dumps([[r[0], r[1] if r[0] == "tree" else None] for r in results], sort_keys=True, default=str).encode()).hexdigest()[:16], "sig": sig, "nontrivial": nontrivial}

    def edit_in_place(self, base, mA, mB, cfg):
        """Turn the materialised tree of model A into model B in place; returns how many
        files changed content with size and mtime preserved."""
        same = 0
        for p in sorted(mA, reverse=True):
            if p not in mB or mA[p]["t"] != mB[p]["t"] or (mA[p]["t"] in ("l", "x") and mA[p] != mB[p]):
                full = os.path.join(base, p)
                if os.path.islink(full) or os.path.isfile(full):
                    os.unlink(full)
                elif os.path.isdir(full):
                    shutil.rmtree(full)
        for p in sorted(mB):
            e = mB[p]
            full = os.path.join(base, p)
            if e["t"] == "d":
                os.makedirs(full, exist_ok=True)
            elif e["t"] == "f":
                new = content(e)
                if os.path.isfile(full) and not os.path.islink(full):
                    old = open(full, "rb").read()
                    if old != new:
                        st = os.stat(full)
                        with open(full, "wb") as f:
                            f.write(new)
                        if len(old) == len(new):
                            os.utime(full, ns=(st.st_atime_ns, st.st_mtime_ns))
                            same += 1
                else:
                    os.makedirs(os.path.dirname(full), exist_ok=True)
                    with open(full, "wb") as f:
                        f.write(new)
            elif e["t"] == "l" and not os.path.islink(full):
                os.makedirs(os.path.dirname(full), exist_ok=True)
                os.symlink(e["raw"] if e.get("sp") == "raw" else spell(base, p, e["to"].strip("/"), e.get("sp", "rel")), full)
            elif e["t"] == "x" and not os.path.islink(full):
                os.makedirs(os.path.dirname(full), exist_ok=True)
                os.symlink(e["to"].replace("/@SIBLING@", base + "_old"), full)
        return same

    @staticmethod
    def diff(a, b, pre=""):
        out = []
        for k in sorted(set(a) | set(b)):
            if k not in a:
                out.append(f"+{pre}{k}")
            elif k not in b:
                out.append(f"-{pre}{k}")
            elif a[k] != b[k]:
                if isinstance(a[k], dict) and isinstance(b[k], dict):
                    out += DirscanEngine.diff(a[k], b[k], pre + k + "/")
                else:
                    out.append(f"~{pre}{k}: expected {str(a[k])[:60]} got {str(b[k])[:60]}")
        return out[:5]

    @staticmethod
    def shape(exp, got, model):
        d = DirscanEngine.diff(exp, got)
        if d and "expected symlink:" in d[0] and "got sha" in d[0]:
            return "file-symlink-hashed-by-content"
        return "other"

    def simplify(self, case):
        if case["cfg"].get("edit"):
            c = json.loads(json.dumps(case))
            c["cfg"]["edit"] = None
            yield c
        for i, e in enumerate(case["ops"]):
            if e.get("len", 0) > 1:
                c = json.loads(json.dumps(case))
                c["ops"][i]["len"] = 1
                yield c
            if e.get("sp") not in (None, "rel"):
                c = json.loads(json.dumps(case))
                c["ops"][i]["sp"] = "rel"
                yield c
