"""Engine C `sites` (C10): repository site R, packer site L, transport.

R holds a real IH5MFRecord whose life cycle is an engine-A history (patches, restarts,
manifest extensions).  At seeded moments site L, which can only download R's latest
manifest and upload a patch container + manifest, builds a stub, applies an
existence-based update on top of it and ships the patch.  The transport may delay it
past an advance of R, duplicate it, corrupt it or lose the manifest.
"""
from __future__ import annotations

import hashlib
import json
import os
import shutil

from simcore import env
from simcore import treeops as T
from simcore import values as V
from simcore.rng import Rng
from sims import ih5store as A
from sims.ih5store import Violation

UPDATE_OPS = ("set_ds", "create_group", "require_group", "del", "set_attr", "del_attr")


def value_tokens(dump):
    """Byte strings that identify stored values (string/bytes/void kinds, >= 4 bytes)."""
    toks = set()
    for ent in dump.values():
        vals = list(ent[-1].values()) + ([ent[1]] if ent[0] == "d" else [])
        for v in vals:
            if v[0] in ("s", "v") and len(v[1]) >= 8:
                toks.add(bytes.fromhex(v[1]))
    return toks


def skeleton_shape(skel):
    return {p: (str(n.node_type), sorted(n.attrs)) for p, n in skel.__root__.items()}


def op_stub_update(w, op):
    from pathlib import Path

    from metador_core.ih5.manifest import IH5Manifest, IH5MFRecord
    from metador_core.ih5.record import IH5Record
    from metador_core.ih5.skeleton import IH5Skeleton

    r = w.rec(op["rec"])
    if r.cls != "mf" or not r.exists or r.is_open or not all(c["committed"] for c in r.disk):
        return "skip"
    n = len(r.disk)
    names = [c["file"] for c in r.disk]
    last = names[-1]
    mfile = os.path.join(w.sut, last + "mf.json")
    if not os.path.exists(mfile):
        raise Violation("C10", "manifest-link", f"latest committed container {last} of an IH5MFRecord has no manifest file")
    ldir = os.path.join(w.scratch, "siteL")
    cdir = os.path.join(w.scratch, "clone")
    if op.get("keep_site") and os.path.isdir(ldir):
        # site L keeps its working directory between updates and tidies up with the library's
        # own delete_files (which removes the containers of the old stub, not their sidecars)
        try:
            IH5MFRecord.delete_files(Path(os.path.join(ldir, r.name)))
        except Exception as e:
            raise Violation("C10", "site-cleanup-raised", f"delete_files on the previous stub raised {type(e).__name__}: {e}")
        for f in os.listdir(ldir):
            if not f.endswith("mf.json"):
                fp = os.path.join(ldir, f)
                shutil.rmtree(fp, ignore_errors=True) if os.path.isdir(fp) else os.unlink(fp)
        w.probe("site_L_reused", 1)
        if any(f.endswith("mf.json") for f in os.listdir(ldir)):
            w.probe("site_L_stale_sidecars", 1)
    else:
        shutil.rmtree(ldir, ignore_errors=True)
        os.makedirs(ldir)
    shutil.rmtree(cdir, ignore_errors=True)
    os.makedirs(cdir)
    # ---- message 1: download the latest manifest
    shutil.copyfile(mfile, os.path.join(ldir, "latest.json"))
    w.count_fault("xfer_manifest_download")
    real = IH5MFRecord(w.path(r), "r")
    try:
        real_dump, _ = V.dump_tree(real)
        real_skel = skeleton_shape(IH5Skeleton.for_record(real))
        real_meta = real.ih5_meta
    finally:
        real.close()
    try:
        stub = IH5MFRecord.create_stub(os.path.join(ldir, r.name), Path(os.path.join(ldir, "latest.json")))
    except Exception as e:
        raise Violation("C10", "stub-creation-raised", f"create_stub from the latest manifest raised {type(e).__name__}: {e}")
    flags_stub = []
    try:
        # 1. same paths, node kinds, attribute names
        stub_skel = skeleton_shape(IH5Skeleton.for_record(stub))
        if stub_skel != real_skel:
            d = [p for p in set(stub_skel) | set(real_skel) if stub_skel.get(p) != real_skel.get(p)]
            raise Violation("C10", "stub-skeleton", f"stub and real record differ in paths/kinds/attribute names at {sorted(d)[:4]}: stub {[stub_skel.get(p) for p in sorted(d)[:2]]} real {[real_skel.get(p) for p in sorted(d)[:2]]}")
        # 2. no data in the stub
        sd, errs = V.dump_tree(stub)
        for p, ent in sd.items():
            vals = list(ent[-1].values()) + ([ent[1]] if ent[0] == "d" else [])
            for v in vals:
                if v != ["e"]:
                    raise Violation("C10", "stub-has-data", f"stub value at {p} is {v}, expected an empty placeholder")
        blob = open(os.path.join(ldir, r.name + ".ih5"), "rb").read()
        for tok in value_tokens(real_dump):
            if tok in blob:
                raise Violation("C10", "stub-leaks-data", f"stub container file contains value bytes {tok[:20]!r} of the real record")
        w.probe("stub_tokens_searched", len(value_tokens(real_dump)))
        # 3. merge refused
        before = sorted(os.listdir(ldir))
        try:
            stub.merge_files(Path(os.path.join(ldir, "merged")))
            merged = True
        except Exception:
            merged = False
        if merged:
            raise Violation("C10", "stub-merged", "merge_files on a stub-based record succeeded")
        if sorted(os.listdir(ldir)) != before:
            w.probe("refused_stub_merge_left_files")
            for f in set(os.listdir(ldir)) - set(before):
                os.unlink(os.path.join(ldir, f))
        sm = stub.ih5_meta
        if sm[0].patch_uuid != real_meta[-1].patch_uuid or sm[0].patch_index != real_meta[-1].patch_index or sm[0].record_uuid != real_meta[-1].record_uuid:
            raise Violation("C10", "stub-identity", "stub does not carry record uuid / patch uuid / patch index of the real record's newest container")
        # ---- the update, via the stub
        stub.create_patch()
        cut = op.get("two_sessions")
        for i, u in enumerate(op["ops"]):
            if cut is not None and i == cut % (len(op["ops"]) + 1):
                # site L stops working and picks the unfinished patch up again later
                stub.close(commit=False)
                try:
                    stub = IH5MFRecord(os.path.join(ldir, r.name), "r+")
                except Exception as e:
                    raise Violation("C10", "unfinished-stub-patch-unopenable", f"stub + unfinished patch does not reopen in 'r+' at site L: {type(e).__name__}: {e}")
                w.probe("stub_patch_resumed_in_second_session")
            ok, _ = T.try_apply(stub, u)
            flags_stub.append(ok)
        stub.commit_patch()
        patch_name = os.path.basename(str(stub.ih5_files[-1]))
    finally:
        try:
            stub.close()
        except Exception:
            pass
    # ---- the patched stub, reopened: still a stub-based record, merge must be refused
    try:
        again = IH5MFRecord(os.path.join(ldir, r.name), "r")
    except Exception as e:
        raise Violation("C10", "patched-stub-unopenable", f"stub + stub-made patch does not reopen at site L: {type(e).__name__}: {e}")
    try:
        before = sorted(os.listdir(ldir))
        try:
            again.merge_files(Path(os.path.join(ldir, "merged2")))
            merged = True
        except Exception:
            merged = False
        if merged:
            raise Violation("C10", "stub-merged", "merge_files on a reopened stub + patch succeeded (the result would pose as the real record but hold placeholders)", shape="reopened")
        for f in set(os.listdir(ldir)) - set(before):
            os.unlink(os.path.join(ldir, f))
    finally:
        again.close()
    # ---- the same file set opened through the plain record class: still contains a stub
    try:
        plain = IH5Record(os.path.join(ldir, r.name), "r")
    except Exception:
        plain = None
        w.probe("stub_set_not_openable_as_plain_record")
    if plain is not None:
        try:
            before = sorted(os.listdir(ldir))
            try:
                plain.merge_files(Path(os.path.join(ldir, "merged3")))
                merged = True
            except Exception:
                merged = False
            if merged:
                raise Violation("C10", "stub-merged", "merge_files on stub + patch opened as plain IH5Record succeeded (a data-less container with the identity of the real record)", shape="plain-class")
            for f in set(os.listdir(ldir)) - set(before):
                os.unlink(os.path.join(ldir, f))
        finally:
            plain.close()
    # ---- a stub built with the generic helpers on a plain IH5Record (init_stub_base)
    if op.get("plain_stub", True):
        from metador_core.ih5.skeleton import init_stub_base

        pdir = os.path.join(w.scratch, "siteLplain")
        shutil.rmtree(pdir, ignore_errors=True)
        os.makedirs(pdir)
        mfobj = IH5Manifest.parse_file(Path(os.path.join(ldir, "latest.json")))
        ps = IH5Record._create(Path(os.path.join(pdir, r.name)))
        try:
            init_stub_base(ps, mfobj.user_block.copy(), mfobj.skeleton)
            ps.commit_patch()
        finally:
            ps.close()
        try:
            ps = IH5Record(os.path.join(pdir, r.name), "r+")
        except Exception as e:
            raise Violation("C10", "plain-stub-unopenable", f"stub made with init_stub_base on an IH5Record cannot be reopened to create a patch: {type(e).__name__}: {e}")
        pflags = []
        try:
            for u in op["ops"]:
                ok, _ = T.try_apply(ps, u)
                pflags.append(ok)
            ps.commit_patch()
            plain_patch = os.path.basename(str(ps.ih5_files[-1]))
        finally:
            ps.close()
        w.probe("plain_stub_patches")
    else:
        plain_patch = None
    # ---- the same update, directly on a clone of the real record
    for f in names:
        shutil.copyfile(os.path.join(w.sut, f), os.path.join(cdir, f))
        shutil.copyfile(os.path.join(w.sut, f + "mf.json"), os.path.join(cdir, f + "mf.json")) if os.path.exists(os.path.join(w.sut, f + "mf.json")) else None
    clone = IH5MFRecord(os.path.join(cdir, r.name), "r+")
    flags_clone = []
    try:
        for u in op["ops"]:
            ok, _ = T.try_apply(clone, u)
            flags_clone.append(ok)
        clone.commit_patch()
        clone_dump, _ = V.dump_tree(clone)
        clone_exts = clone.manifest.manifest_exts
    finally:
        clone.close()
    if flags_stub != flags_clone:
        i = next(j for j, (a, b) in enumerate(zip(flags_stub, flags_clone)) if a != b)
        raise Violation("C10", "update-outcome", f"update op {json.dumps(op['ops'][i])} {'succeeds' if flags_stub[i] else 'fails'} on the stub-based record but {'succeeds' if flags_clone[i] else 'fails'} on the real record", shape=op["ops"][i]["op"])
    if plain_patch is not None:
        if pflags != flags_clone:
            i = next(j for j, (a, b) in enumerate(zip(pflags, flags_clone)) if a != b)
            raise Violation("C10", "update-outcome", f"update op {json.dumps(op['ops'][i])} behaves differently on the plain stub-based record", shape="plain:" + op["ops"][i]["op"])
        tmpname = "plainstub-" + plain_patch
        shutil.copyfile(os.path.join(pdir, plain_patch), os.path.join(w.sut, tmpname))
        try:
            try:
                o = IH5Record([Path(os.path.join(w.sut, f)) for f in names + [tmpname]], "r")
            except Exception as e:
                raise Violation("C10", "patch-refused", f"patch made on a plain (init_stub_base) stub is not accepted by the real record: {type(e).__name__}: {e}", shape="plain")
            try:
                d, errs = V.dump_tree(o)
                if errs or d != clone_dump:
                    raise Violation("C10", "patched-view", f"real record + patch made on a plain stub differs from the direct update: {errs[:2] or V.diff_dumps(clone_dump, d)}", shape="plain")
            finally:
                o.close()
        finally:
            os.unlink(os.path.join(w.sut, tmpname))
    # ---- message 2: upload patch + manifest through the transport
    fault = op.get("transport", "none")
    w.count_fault("xfer_" + fault)
    patch_src = os.path.join(ldir, patch_name)
    deliver_as = patch_name
    delivered = []

    def deliver(src, name, with_manifest=True):
        shutil.copyfile(src, os.path.join(w.sut, name))
        delivered.append(name)
        if with_manifest:
            shutil.copyfile(patch_src + "mf.json", os.path.join(w.sut, name + "mf.json"))
            delivered.append(name + "mf.json")

    def undeliver():
        for f in delivered:
            try:
                os.unlink(os.path.join(w.sut, f))
            except FileNotFoundError:
                pass
        delivered.clear()

    def try_open(cls, files):
        try:
            o = cls([Path(os.path.join(w.sut, f)) for f in files], "r")
        except Exception as e:
            return None, f"{type(e).__name__}: {e}"
        try:
            d, errs = V.dump_tree(o)
            return (d if not errs else {"!": errs}), None
        finally:
            o.close()

    if fault == "none":
        deliver(patch_src, deliver_as)
        for cls in (IH5MFRecord, IH5Record):
            d, err = try_open(cls, names + [deliver_as])
            if err:
                undeliver()
                raise Violation("C10", "patch-refused", f"patch made on the stub is not accepted as next patch of the real record by {cls.__name__}: {err}")
            if d != clone_dump:
                undeliver()
                raise Violation("C10", "patched-view", f"real record + stub-made patch ({cls.__name__}) differs from the direct update: {V.diff_dumps(clone_dump, d)}")
        # adopt: the patch becomes part of R
        for u, ok in zip(op["ops"], flags_clone):
            okr, _ = T.try_apply(r.ref, u)
            if okr != ok:
                raise env.HarnessError(f"reference disagrees with clone on {u}")
        r.disk.append({"file": deliver_as, "committed": False})
        w.pre_commit(r)
        exts_on_r = IH5Manifest.parse_file(os.path.join(w.sut, deliver_as + "mf.json")).manifest_exts
        if r.exts is not None and exts_on_r != r.exts:
            undeliver()
            r.disk.pop()
            w.abort_commit(r)
            raise Violation("C10", "manifest-exts", f"manifest_exts of the record were {r.exts}; after applying the stub-made patch they are {exts_on_r} (direct update keeps {clone_exts})", shape="exts-lost-via-stub")
        rec = IH5MFRecord(w.path(r), "r")
        try:
            r.obj = rec
            w.post_commit(r, shape_only=True)
        finally:
            r.obj = None
            rec.close()
        w.probe("stub_patch_adopted")
        return "adopted"
    if fault == "corrupt":
        b = bytearray(open(patch_src, "rb").read())
        off = 1024 + (op.get("seed", 0) % max(1, len(b) - 1024))
        b[off] ^= 1 << (op.get("seed", 0) % 8)
        tmp = os.path.join(ldir, "corrupt.bin")
        open(tmp, "wb").write(bytes(b))
        deliver(tmp, deliver_as)
        for cls in (IH5MFRecord, IH5Record):
            d, err = try_open(cls, names + [deliver_as])
            if err is None:
                undeliver()
                raise Violation("C10", "corrupt-transfer-accepted", f"patch corrupted in transit (byte {off}) is accepted by {cls.__name__}", shape="corrupt")
        undeliver()
        return "refused"
    if fault == "dup":
        deliver(patch_src, deliver_as)
        deliver(patch_src, deliver_as.replace(".ih5", "x.ih5"))
        d, err = try_open(IH5MFRecord, names + [deliver_as, deliver_as.replace(".ih5", "x.ih5")])
        undeliver()
        if err is None:
            raise Violation("C10", "duplicate-transfer-accepted", "file set containing the uploaded patch twice is accepted", shape="dup")
        return "refused"
    if fault == "lost_manifest":
        deliver(patch_src, deliver_as, with_manifest=False)
        d, err = try_open(IH5MFRecord, names + [deliver_as])
        d2, err2 = try_open(IH5Record, names + [deliver_as])
        undeliver()
        if err is None:
            raise Violation("C10", "patch-without-manifest-accepted", "IH5MFRecord accepts the uploaded patch although its manifest was lost in transit", shape="lost_manifest")
        if err2 is not None or d2 != clone_dump:
            raise Violation("C10", "patched-view", f"IH5Record view of real + patch (manifest lost) is wrong: {err2}")
        return "refused"
    if fault == "delay":
        # R advances before the upload arrives
        adv = IH5MFRecord(w.path(r), "r+")
        r.obj = adv
        r.ro = False
        r.disk.append({"file": f"{r.name}.p{adv.ih5_meta[-1].patch_index}.ih5", "committed": False})
        try:
            for u in op.get("advance", []) or [{"op": "set_ds", "base": "/", "path": "advanced_by_R", "val": ["i", 99]}]:
                okr, _ = T.try_apply(r.ref, u)
                oks, _ = T.try_apply(adv, u)
                if okr != oks:
                    raise Violation("C01", "outcome", f"{u}: plain/IH5 disagree during advance")
            w.pre_commit(r)
            adv.commit_patch()
            w.post_commit(r)
        finally:
            adv.close()
            r.obj = None
        late = deliver_as.replace(".ih5", "late.ih5")
        deliver(patch_src, late)
        newnames = [c["file"] for c in r.disk]
        d, err = try_open(IH5MFRecord, newnames + [late])
        d1, err1 = try_open(IH5MFRecord, names + [late])
        undeliver()
        if err is None:
            raise Violation("C10", "stale-patch-accepted", "patch made for an older state is accepted on top of the advanced record", shape="delay")
        if err1 is not None or d1 != clone_dump:
            raise Violation("C10", "stale-patch-on-own-chain", f"patch does not open on the chain it was made for: {err1}")
        w.probe("stale_stub_patch_arrived_after_advance")
        return "refused"
    raise env.HarnessError(fault)


A.EXTRA_OPS["stub_update"] = op_stub_update


class SitesEngine:
    name = "sites"
    rule = {
        "C10": "seeded histories of a real IH5MFRecord at site R (1-6 containers, manifest extensions set at seeded commits, clean and aborting restarts) interleaved with stub-based updates from site L (1-15 existence-based ops, applied via stub and directly to a clone) shipped through a transport with one seeded fault (none / delay past an advance of R / duplicate / corrupt / manifest lost); non-trivial = at least one stub-made patch adopted by a record with >= 2 containers; distinct = digest of (op kinds, transport faults, final layout)"
    }
    assumptions = {
        "C10": [
            "update histories are existence-based (create/replace/delete of groups, datasets, attributes; no copy/move of pre-existing nodes, no reads)",
            "the transport moves whole files (loss, duplication, delay, one flipped payload bit); a patch arriving late is stored under a free file name",
        ]
    }
    components = {
        "real": ["metador_core.ih5 (manifest, skeleton, record, overlay) from the working tree", "h5py + libhdf5", "kernel VFS (tmpfs)"],
        "stub": ["site L / site R / clone directories and the file transport between them (in-process fakes)", "uuid1 (seeded counter)"],
        "reference": ["clone of the real record receiving the same update directly", "plain h5py.File + life-cycle model of engine A for site R"],
    }

    def __init__(self):
        self.base = A.IH5StoreEngine()

    def generate(self, prop, tag, tier):
        rng = Rng(tag)
        g = rng["sites"]
        vgen = T.ValueGen(rng["values"], kinds=["s", "su", "y", "v", "s", "y"])
        sh = T.Shadow()
        dgen = T.DataGen(g, exotic=g.choice([0, 0.15]), max_nodes=g.choice([6, 12, 20]), vgen=vgen, weights={"copy": 3, "move": 3})
        ops = [{"op": "open", "rec": 0, "mode": "w", "by": "name"}]
        is_open = True
        nphase = g.randint(1, 5)
        counter = 0
        for ph in range(nphase):
            # R-side activity
            for _ in range(g.randint(1, 8)):
                if not is_open:
                    ops.append({"op": "open", "rec": 0, "mode": g.choice(["r+", "a"]), "by": g.choice(["name", "name", "list"]), "perm": g.randrange(100)})
                    is_open = True
                roll = g.random()
                if roll < 0.70:
                    op = dgen.gen(sh)
                    op["rec"] = 0
                    sh.apply(op)
                    ops.append(op)
                elif roll < 0.85:
                    c = {"op": "commit", "rec": 0}
                    if g.random() < 0.5:
                        counter += 1
                        c["exts"] = g.choice([{"k": f"v{counter}"}, {"pk": {"n": counter}}, {}, {"who": f"Jörg Müller {counter}"}])
                    ops.append(c)
                    ops.append({"op": "create_patch", "rec": 0})
                elif roll < 0.95:
                    ops.append({"op": "close", "rec": 0, "commit": g.random() < 0.5})
                    is_open = False
                else:
                    ops.append({"op": "discard", "rec": 0})
            # L-side: stub update (needs R closed and fully committed)
            if is_open:
                c = {"op": "commit", "rec": 0}
                if g.random() < 0.4:
                    counter += 1
                    c["exts"] = {"k": f"v{counter}"}
                ops.append(c)
                ops.append({"op": "close", "rec": 0, "commit": True})
                is_open = False
            else:
                ops.append({"op": "open", "rec": 0, "mode": "r+", "by": "name"})
                ops.append({"op": "close", "rec": 0, "commit": True})
            ups = []
            sh2 = sh.clone()
            ugen = T.DataGen(g, exotic=dgen.exotic, max_nodes=dgen.max_nodes + 4, vgen=vgen, weights={"copy": 0, "move": 0, "del": 22, "set_ds": 30})
            for _ in range(g.randint(1, 15)):
                u = ugen.gen(sh2)
                if u["op"] not in UPDATE_OPS:
                    continue
                sh2.apply(u)
                ups.append(u)
            fault = g.choice(["none", "none", "none", "none", "delay", "dup", "corrupt", "lost_manifest"])
            su = {"op": "stub_update", "rec": 0, "ops": ups, "transport": fault, "seed": g.randrange(10**6), "keep_site": g.random() < 0.6}
            if g.random() < 0.3:
                su["two_sessions"] = g.randrange(16)
            if fault == "delay":
                adv = []
                for _ in range(g.randint(1, 3)):
                    a = dgen.gen(sh)
                    if a["op"] in UPDATE_OPS:
                        sh.apply(a)
                        adv.append(a)
                su["advance"] = adv
            if fault == "none":
                sh = sh2
            ops.append(su)
        cfg = {"profile": "sites", "classes": {"0": "mf"}, "recs": [0], "nav_every": 5}
        return {"engine": self.name, "prop": prop, "tag": tag, "cfg": cfg, "ops": ops}

    def execute(self, case, scratch):
        res = self.base.execute(case, scratch)
        adopted = res["probes"].get("stub_patch_adopted", 0)
        res["nontrivial"] = bool(adopted and res.get("containers", 0) >= 3)
        faults = [o.get("transport") for o in case["ops"] if o["op"] == "stub_update"]
        res["sig"] = hashlib.sha256(json.dumps([res["sig"], faults]).encode()).hexdigest()[:16]
        return res

    def simplify(self, case):
        yield from self.base.simplify(case)
        for i, op in enumerate(case["ops"]):
            if op["op"] == "stub_update":
                for j in range(len(op["ops"])):
                    c = json.loads(json.dumps(case))
                    del c["ops"][i]["ops"][j]
                    yield c
                if op.get("transport") != "none":
                    c = json.loads(json.dumps(case))
                    c["ops"][i]["transport"] = "none"
                    yield c
