"""Harness-registered schema family (several versions, three inheritance levels, one
auxiliary schema, one name that is never registered) plus deterministic instance
generators for installed and harness schemas.

Registration goes through the public register_in_group(..., violently=True) in ascending
version order, followed by a synthetic entry point and package record so that
schemas.provider() works (PluginGroup._add_ep cannot be used: it keeps only the version
registered last - a defect that belongs to the unclaimed property C16).
"""
from __future__ import annotations

from typing import List, Optional

PKG_NAME = "verif-schemas"
PKG_VERSION = (1, 2, 3)

_registered = False
FAMILY = {}  # (name, version) -> class


class _Dist:
    def __init__(self, name):
        self.name = name
        self.version = ".".join(map(str, PKG_VERSION))


class _EP:
    def __init__(self, name, cls):
        self.name = name
        self.dist = _Dist(PKG_NAME)
        self._cls = cls

    def load(self):
        return self._cls


def register():
    """Idempotent: define and register the family."""
    global _registered
    if _registered:
        return FAMILY
    from metador_core.plugin.types import to_ep_name
    from metador_core.plugin.util import register_in_group
    from metador_core.plugins import schemas
    from metador_core.schema import MetadataSchema
    from metador_core.schema.plugins import PluginPkgMeta

    class Base010(MetadataSchema):
        class Plugin:
            name = "verif.base"
            version = (0, 1, 0)

        title: str
        n: Optional[int]

    class Base020(MetadataSchema):
        class Plugin:
            name = "verif.base"
            version = (0, 2, 0)

        title: str
        n: Optional[int]
        note: Optional[str]

    class Base100(MetadataSchema):
        class Plugin:
            name = "verif.base"
            version = (1, 0, 0)

        title: str
        n: Optional[int]
        note: Optional[str]
        tags: List[str] = []

    class Mid010(Base020):
        class Plugin:
            name = "verif.mid"
            version = (0, 1, 0)

        level: int

    class Mid011(Base020):
        class Plugin:
            name = "verif.mid"
            version = (0, 1, 1)

        level: int

    class Leaf010(Mid011):
        class Plugin:
            name = "verif.leaf"
            version = (0, 1, 0)

        leafval: float

    class Leaf100(Base100):
        class Plugin:
            name = "verif.leaf"
            version = (1, 0, 0)

        leafval: float

    class Aux010(MetadataSchema):
        class Plugin:
            name = "verif.aux"
            version = (0, 1, 0)
            auxiliary = True

        x: int

    class Other010(MetadataSchema):
        class Plugin:
            name = "verif.other"
            version = (0, 1, 0)

        flag: bool
        words: List[str] = []

    order = [Base010, Base020, Base100, Mid010, Mid011, Leaf010, Leaf100, Aux010, Other010]
    refs = []
    for cls in order:
        register_in_group(schemas, cls, violently=True)
        info = cls.Plugin
        FAMILY[(info.name, tuple(info.version))] = cls
        ep_name = to_ep_name(info.name, info.version)
        schemas._ENTRY_POINTS[ep_name] = _EP(ep_name, cls)
        refs.append(schemas.PluginRef(name=info.name, version=info.version))
    for name in set(r.name for r in refs):
        schemas._VERSIONS[name].sort()
    schemas._PKG_META[PKG_NAME] = PluginPkgMeta(name=PKG_NAME, version=PKG_VERSION, plugins={schemas.name: refs})
    _registered = True
    return FAMILY


# name -> list of versions usable for attaching (non-auxiliary, registered)
ATTACHABLE = [
    ("verif.base", (0, 1, 0)),
    ("verif.base", (0, 2, 0)),
    ("verif.base", (1, 0, 0)),
    ("verif.mid", (0, 1, 0)),
    ("verif.mid", (0, 1, 1)),
    ("verif.leaf", (0, 1, 0)),
    ("verif.leaf", (1, 0, 0)),
    ("verif.other", (0, 1, 0)),
    ("core.person", (0, 1, 0)),
    ("core.dir", (0, 1, 0)),
    ("core.bib", (0, 1, 0)),
    ("core.org", (0, 1, 0)),
    ("example.matsci.instrument", (0, 1, 0)),
    ("example.matsci.specimen", (0, 1, 0)),
]

QUERY_NAMES = ["verif.base", "verif.mid", "verif.leaf", "verif.other", "verif.aux", "verif.ghost", "core.file", "core.imagefile", "core.dir", "core.bib", "core.person"]
QUERY_VERSIONS = [None, (0, 1, 0), (0, 1, 1), (0, 2, 0), (0, 3, 0), (1, 0, 0), (1, 1, 0), (2, 0, 0)]


# text that a careless (de)serialiser mangles: non-BMP, quotes/backslash, newline, YAML syntax,
# Unicode line separator, leading/trailing blanks, NEL
TEXT_HAZARDS = ["", "", " \u00fc\u00df", " \U00020bb7\U0001f642", ' "q" \\ b', " line\nbreak", " k: v # - [x] {y}", " \u2028sep", "  pad  ", " \u0085nel", " 'single' & <tag>"]


def instance(name, version, idx):
    """Deterministic valid instance (as dict) number idx of schema (name, version)."""
    i = int(idx)
    t = f"obj{i}" + TEXT_HAZARDS[i % len(TEXT_HAZARDS)]
    if name == "verif.base":
        d = {"title": t}
        if i % 2:
            d["n"] = i
        if tuple(version) >= (0, 2, 0) and i % 3 == 0:
            d["note"] = f"note-{i}"
        if tuple(version) >= (1, 0, 0) and i % 4 == 0:
            d["tags"] = [f"t{i}", "x"]
        return d
    if name == "verif.mid":
        d = {"title": t, "level": i}
        if i % 2:
            d["note"] = "n"
        return d
    if name == "verif.leaf":
        d = {"title": t, "leafval": i + 0.5}
        if tuple(version) < (1, 0, 0):
            d["level"] = i * 2
        else:
            d["tags"] = ["leaf"]
        return d
    if name == "verif.other":
        return {"flag": bool(i % 2), "words": [f"w{i}"] * (i % 3)}
    if name == "verif.aux":
        return {"x": i}
    if name == "core.table":
        return {"name": f"table{i}", "columns": [{"name": f"col{j}", "unit": "m"} for j in range(1 + i % 3)]}
    if name == "core.person":
        return {"@id": f"https://orcid.org/0000-0000-0000-{i % 10000:04d}", "givenName": f"G{i}", "familyName": "Fam", "name": f"G{i} Fam"}
    if name == "core.org":
        return {"@id": f"https://ror.org/0{i}", "name": f"Org {i}"}
    if name == "core.dir":
        d = {"name": f"dir{i}", "description": "d" * (1 + i % 5)}
        if i % 3 == 0:
            d["author"] = [{"@id": f"https://orcid.org/0000-0000-0000-{i % 10000:04d}", "givenName": "A", "familyName": "B", "name": "A B"}]
        return d
    if name == "core.bib":
        return {"name": f"bib{i}", "abstract": f"abstract {i}", "dateCreated": "2022-01-0" + str(1 + i % 9), "creator": {"@id": f"https://orcid.org/0000-0000-0000-{i % 10000:04d}", "givenName": "A", "familyName": "B", "name": "A B"}, "author": [{"@id": f"https://orcid.org/0000-0000-0000-{i % 10000:04d}", "givenName": "A", "familyName": "B", "name": "A B"}]}
    if name == "example.matsci.instrument":
        return {"instrumentName": f"inst{i}", "instrumentModel": "M", "instrumentManufacturer": {"@id": "https://ror.org/0x", "name": "Manu"}}
    if name == "example.matsci.specimen":
        return {"diameter": 1.5 + i, "gaugeLength": 2.25}
    raise KeyError(name)


def invalid_instance(name, version, idx):
    """An object the schema must reject."""
    if name.startswith("verif."):
        return {"title": {"not": "a string"}, "level": "x", "leafval": "y", "flag": [1, 2]}
    return {"columns": 5, "givenName": {"a": 1}, "name": {"a": []}, "@id": 5, "diameter": "x", "instrumentName": []}


# parent / child schemas (name -> list of (name, version) related by inheritance)
RELATED = {
    "verif.base": [("verif.mid", (0, 1, 1)), ("verif.leaf", (0, 1, 0)), ("verif.leaf", (1, 0, 0))],
    "verif.mid": [("verif.base", (0, 2, 0)), ("verif.leaf", (0, 1, 0))],
    "verif.leaf": [("verif.base", (0, 2, 0)), ("verif.base", (1, 0, 0)), ("verif.mid", (0, 1, 1))],
    "core.dir": [("core.bib", (0, 1, 0))],
    "core.bib": [("core.dir", (0, 1, 0))],
}
