"""Engine B `fileset` (C04): storage and shipping faults on closed records.

A valid record (1..6 committed containers, IH5Record or IH5MFRecord) is built by an
engine-A history; optionally a fork (patch made on a copy of a prefix) and a foreign
record (same file names, other record uuid).  Then exactly one mutation is applied to a
copy of the file set and the copy is opened with cls(files, 'r') in a forked process.
Structural mutations are enumerated completely, payload mutations are sampled (quick)
or enumerated over every payload byte (thorough, for a few small records).
"""
from __future__ import annotations

import hashlib
import json
import os
import random
import shutil

from simcore import driver, env
from simcore import treeops as T
from simcore import values as V
from simcore.rng import Rng
from sims import ih5store as A

UB = 1024
BY_NAME_KINDS = {"none", "remove", "drop_newest", "flip", "insert", "remove_byte", "truncate", "extend", "drop_manifest", "manifest_flip", "manifest_append", "manifest_edit", "manifest_older"}


def expand_structural(n, mf, has_fork, fork_k, has_foreign):
    """All structural mutations for a chain of n committed containers."""
    m = []
    for i in range(n):
        m.append({"kind": "remove", "i": i})
        m.append({"kind": "duplicate", "i": i})
        if has_foreign:
            m.append({"kind": "swap_foreign", "i": i})
            m.append({"kind": "add_foreign", "i": i})
    for j in range(1, n):
        m.append({"kind": "drop_newest", "j": j})
    for rot in range(n):
        m.append({"kind": "rotate", "by": rot})
    m.append({"kind": "reverse"})
    if n >= 3:
        m.append({"kind": "dup_uuid_far"})
    m.append({"kind": "merged_alone"})
    for j in range(0, n - 1):
        m.append({"kind": "tail_replaced_by_merged", "j": j})
    if has_fork:
        m.append({"kind": "swap_fork"})
        m.append({"kind": "add_fork"})
        m.append({"kind": "end_in_fork"})
    if n >= 2:
        # the patches without their base, opened with the documented allow_baseless option and
        # merged: the result is still no complete record
        m.append({"kind": "merged_baseless", "j": 1})
        if n >= 3:
            m.append({"kind": "merged_baseless", "j": n - 1})
    # the same record with an unfinished (uncommitted) patch on top: everything committed
    # below it is still protected
    m.append({"kind": "tail_none"})
    m.append({"kind": "tail_flip", "i": n - 1, "off": 0.5, "bit": 3})
    if n > 1:
        m.append({"kind": "tail_flip", "i": 0, "off": 0.3, "bit": 1})
        m.append({"kind": "tail_remove", "i": n - 1})
    if mf:
        m.append({"kind": "tail_drop_manifest"})
        m.append({"kind": "tail_manifest_flip", "off": 0.5, "bit": 0})
        m.append({"kind": "tail_manifest_edit"})
    if mf:
        m.append({"kind": "drop_manifest"})
        m.append({"kind": "manifest_flip", "off": 0.5, "bit": 0})
        m.append({"kind": "manifest_append", "data": " "})
        m.append({"kind": "manifest_edit"})
        if n > 1:
            m.append({"kind": "manifest_older"})
            m.append({"kind": "drop_older_manifest"})
            m.append({"kind": "edit_older_manifest"})
        m.append({"kind": "open_as_plain"})
    else:
        m.append({"kind": "open_as_mf"})
    return m


def _killed_from_outside(payload):
    st = payload.get("wait_status") if isinstance(payload, dict) else None
    return isinstance(st, int) and os.WIFSIGNALED(st) and os.WTERMSIG(st) == 9


class FilesetEngine:
    name = "fileset"
    rule = {
        "C04": "per generated record: every structural mutation (remove/duplicate each element, drop newest j, swap/add fork or foreign container, all rotations, manifest drop/flip/append/edit/replace) plus payload mutations (bit flip, byte insert/remove, truncate, extend) at seeded positions (quick: 64 per record; thorough: additionally every payload byte of small records); each mutated copy opened read-only in its own process; non-trivial = mutation applied to a record with >= 2 containers or a payload mutation; distinct = (record layout digest, mutation spec)"
    }
    assumptions = {
        "C04": [
            "bytes inside the 1024-byte user block are not 'payload' and are not mutated",
            "manifests of older containers are documented as optional and are expected to be ignored",
            "a mutated copy is opened with the explicit file list (the property's observe_at)",
        ]
    }

    timeouts = {"thorough": 3600}

    def __init__(self):
        self.base = A.IH5StoreEngine()

    # ---------------------------------------------------------------- generation

    def generate(self, prop, tag, tier):
        rng = Rng(tag)
        g = rng["fileset"]
        mf = g.random() < 0.5
        ncont = g.choice([1, 2, 2, 3, 3, 4, 5, 6])
        sh = T.Shadow()
        vgen = T.ValueGen(rng["values"])
        dgen = T.DataGen(g, exotic=g.choice([0, 0.2]), max_nodes=g.choice([4, 8, 15]), vgen=vgen)
        ops = [{"op": "open", "rec": 0, "mode": "w", "by": "name"}]
        for c in range(ncont):
            for _ in range(g.randint(0, 6)):
                op = dgen.gen(sh)
                op["rec"] = 0
                sh.apply(op)
                ops.append(op)
            cm = {"op": "commit", "rec": 0}
            if mf and g.random() < 0.3:
                cm["exts"] = {"k": c}
            ops.append(cm)
            if c < ncont - 1:
                ops.append({"op": "create_patch", "rec": 0})
        ops.append({"op": "close", "rec": 0})
        if g.random() < (0.12 if tier == "quick" else 0.2):
            # one container larger than 1 MiB (hash chunking, tail bytes)
            pos = g.randrange(1, len(ops))
            ops.insert(pos, {"op": "set_ds", "rec": 0, "base": "/", "path": "big_blob", "val": ["z", g.choice([1048576 + 5000, 1300000, 2 * 1048576 + 77]), g.randrange(1000)]})
            sh.apply(ops[pos])
        fork = None
        if ncont >= 2 and g.random() < 0.6:
            k = g.randint(1, ncont - 1)
            fops = []
            for _ in range(g.randint(1, 4)):
                op = dgen.gen(sh)
                fops.append(op)
            fops.append({"op": "set_ds", "base": "/", "path": "fork_marker", "val": ["i", 777]})
            fork = {"k": k, "ops": fops}
        nsample = 64 if tier == "quick" else 200
        payload = []
        for _ in range(nsample):
            kind = g.choice(["flip", "flip", "flip", "insert", "remove_byte", "truncate", "extend"])
            payload.append({"kind": kind, "i": g.randrange(6), "off": g.random(), "bit": g.randrange(8), "n": g.choice([1, 1, 2, 7, 512, 1024])})
        exhaustive = tier == "thorough" and g.random() < 0.01 and ncont <= 3
        cfg = {"classes": {"0": "mf" if mf else "ih5"}, "recs": [0], "fork": fork, "foreign": g.random() < 0.7, "structural": "all", "exhaustive": exhaustive, "nav_every": 1000}
        return {"engine": self.name, "prop": prop, "tag": tag, "cfg": cfg, "ops": ops, "mutations": payload}

    # ---------------------------------------------------------------- build

    def build(self, case, scratch):
        cfg = dict(case["cfg"])
        cfg["monitor"] = False
        tag = case.get("tag", "replay")
        w = A.World(os.path.join(scratch, "main"), cfg, tag)
        try:
            for i, op in enumerate(case["ops"]):
                w.step(i, op)
            r = w.rec(0)
            if r.is_open:
                w.op_close({"rec": 0, "commit": True})
            info = None
            if r.exists and r.commits and all(c["committed"] for c in r.disk):
                info = {
                    "dir": w.sut,
                    "files": [c["file"] for c in r.disk],
                    "dumps": [c["dump"] for c in r.commits],
                    "mf": r.cls == "mf",
                    "snap": [w.ref_snapshot_path(r, n + 1) for n in range(len(r.commits))],
                }
                if len(r.commits) != len(r.disk):
                    info = None
        finally:
            w.shutdown()
        return w, info

    def build_fork(self, case, scratch, info, cls):
        import h5py

        fk = case["cfg"].get("fork")
        if not fk or fk["k"] >= len(info["files"]) or fk["k"] < 1:
            return None
        k = fk["k"]
        d = os.path.join(scratch, "fork")
        os.makedirs(d)
        for f in info["files"][:k]:
            shutil.copyfile(os.path.join(info["dir"], f), os.path.join(d, f))
            if info["mf"] and os.path.exists(os.path.join(info["dir"], f + "mf.json")):
                shutil.copyfile(os.path.join(info["dir"], f + "mf.json"), os.path.join(d, f + "mf.json"))
        refp = os.path.join(d, "ref.h5")
        shutil.copyfile(info["snap"][k - 1], refp)
        env.UUIDS.reseed(case.get("tag", "replay") + "/fork")
        rec = cls(os.path.join(d, "foo"), "r+")
        ref = h5py.File(refp, "r+")
        try:
            for op in fk["ops"]:
                if T.is_into_own_subtree(op):
                    continue
                a, _ = T.try_apply(ref, op)
                b, _ = T.try_apply(rec, op)
                if a != b:
                    return None
            rec.close()
            dump, _ = V.dump_tree(ref)
        finally:
            ref.close()
            try:
                rec.close(commit=False)
            except Exception:
                pass
        ff = f"foo.p{k}.ih5"
        if not os.path.exists(os.path.join(d, ff)):
            return None
        return {"k": k, "dir": d, "file": ff, "dump": dump}

    def build_merged(self, scratch, info, cls):
        """merge_files of the complete record -> single container carrying the newest identity."""
        from pathlib import Path

        d = os.path.join(scratch, "merged")
        os.makedirs(d)
        env.UUIDS.reseed("merged")
        rec = cls([Path(os.path.join(info["dir"], f)) for f in info["files"]], "r")
        try:
            out = rec.merge_files(Path(os.path.join(d, "foo-m")))
        except Exception:
            return None
        finally:
            rec.close()
        return {"dir": d, "file": os.path.basename(str(out))}

    def build_foreign(self, case, scratch):
        c2 = dict(case)
        c2["tag"] = case.get("tag", "replay") + "/foreign"
        cfg = dict(case["cfg"])
        cfg["monitor"] = False
        w = A.World(os.path.join(scratch, "foreign"), cfg, c2["tag"])
        try:
            for i, op in enumerate(case["ops"]):
                w.step(i, op)
            r = w.rec(0)
            if r.is_open:
                w.op_close({"rec": 0, "commit": True})
            if not r.exists or not all(c["committed"] for c in r.disk):
                return None
            return {"dir": w.sut, "files": [c["file"] for c in r.disk], "dumps": [c["dump"] for c in r.commits]}
        finally:
            w.shutdown()

    # ---------------------------------------------------------------- mutation

    def apply_mutation(self, m, info, fork, foreign, d):
        """Materialise the mutated file set in directory d.
        Returns (ordered list of file names to open, expectation, open_cls_override)
        expectation: ("reject",) | ("accept", dump)"""
        files = list(info["files"])
        n = len(files)
        mf = info["mf"]
        src = info["dir"]

        def cp(f, name=None, from_dir=None):
            shutil.copyfile(os.path.join(from_dir or src, f), os.path.join(d, name or f))

        def cpm(f, name=None, from_dir=None):
            p = os.path.join(from_dir or src, f + "mf.json")
            if os.path.exists(p):
                shutil.copyfile(p, os.path.join(d, (name or f) + "mf.json"))

        for f in files:
            cp(f)
            if mf:
                cpm(f)
        order = list(files)
        last_dump = info["dumps"][-1]
        exp = ("accept", last_dump)
        cls_override = None
        k = m["kind"]
        if k in ("none", "flip_after_open", "baseless_after_allow"):
            pass
        elif k == "remove":
            i = m["i"] % n
            order.remove(files[i])
            os.unlink(os.path.join(d, files[i]))
            if i == n - 1 and n >= 2:
                exp = ("accept", info["dumps"][n - 2])
            else:
                exp = ("reject",)
        elif k == "drop_newest":
            j = 1 + (m["j"] - 1) % max(1, n - 1)
            if n < 2:
                return None
            for f in files[n - j :]:
                order.remove(f)
                os.unlink(os.path.join(d, f))
            exp = ("accept", info["dumps"][n - j - 1])
        elif k == "duplicate":
            i = m["i"] % n
            name = files[i].replace(".ih5", "") + "-dup.ih5"
            cp(files[i], name)
            if mf:
                cpm(files[i], name)
            order.append(name)
            exp = ("reject",)
        elif k in ("swap_foreign", "add_foreign"):
            if not foreign:
                return None
            i = m["i"] % min(n, len(foreign["files"]))
            name = "foreign-" + foreign["files"][i]
            cp(foreign["files"][i], name, foreign["dir"])
            if mf:
                cpm(foreign["files"][i], name, foreign["dir"])
            if k == "swap_foreign":
                if n == 1:
                    return None  # the set would simply be the foreign record
                order[order.index(files[i])] = name
                os.unlink(os.path.join(d, files[i]))
            else:
                order.append(name)
            exp = ("reject",)
        elif k == "rotate":
            by = m["by"] % n
            order = order[by:] + order[:by]
        elif k == "reverse":
            order.reverse()
        elif k in ("swap_fork", "add_fork", "end_in_fork"):
            if not fork:
                return None
            fk = fork["k"]
            name = "fork-" + fork["file"]
            cp(fork["file"], name, fork["dir"])
            if mf:
                cpm(fork["file"], name, fork["dir"])
            if k == "swap_fork":
                order[fk] = name
                os.unlink(os.path.join(d, files[fk]))
                exp = ("accept", fork["dump"]) if fk == n - 1 else ("reject",)
            elif k == "add_fork":
                order.append(name)
                exp = ("reject",)
            else:
                for f in files[fk:]:
                    order.remove(f)
                    os.unlink(os.path.join(d, f))
                order.append(name)
                exp = ("accept", fork["dump"])
        elif k == "dup_uuid_far":
            # forged set: the newest container claims the patch_uuid of the base (indices and
            # prev links stay consistent, nothing references the newest uuid)
            from metador_core.ih5.record import IH5UserBlock

            if n < 3:
                return None
            ub0 = IH5UserBlock.load(os.path.join(d, files[0]))
            ubn = IH5UserBlock.load(os.path.join(d, files[-1]))
            ubn.patch_uuid = ub0.patch_uuid
            ubn.save(os.path.join(d, files[-1]))
            exp = ("reject",)
        elif k in ("merged_alone", "tail_replaced_by_merged"):
            mg = info.get("merged")
            if not mg:
                return None
            name = "merged-" + mg["file"]
            cp(mg["file"], name, mg["dir"])
            if mf:
                cpm(mg["file"], name, mg["dir"])
            if k == "merged_alone":
                for f in files:
                    os.unlink(os.path.join(d, f))
                order = [name]
                exp = ("accept", last_dump)
            else:
                j = m["j"] % max(1, n - 1)
                if n < 2:
                    return None
                for f in files[j + 1 :]:
                    order.remove(f)
                    os.unlink(os.path.join(d, f))
                order.append(name)
                exp = ("reject",)
        elif k in ("drop_manifest", "manifest_flip", "manifest_append", "manifest_edit", "manifest_older"):
            if not mf:
                return None
            p = os.path.join(d, files[-1] + "mf.json")
            if k == "drop_manifest":
                os.unlink(p)
            elif k == "manifest_flip":
                b = bytearray(open(p, "rb").read())
                off = int(m["off"] * (len(b) - 1))
                b[off] ^= 1 << (m["bit"] % 8)
                open(p, "wb").write(bytes(b))
            elif k == "manifest_append":
                with open(p, "ab") as f:
                    f.write(m.get("data", " ").encode())
            elif k == "manifest_edit":
                j = json.loads(open(p).read())
                j["manifest_exts"] = {"tampered": True}
                open(p, "w").write(json.dumps(j, indent=2) + "\n")
            elif k == "manifest_older":
                if n < 2:
                    return None
                shutil.copyfile(os.path.join(d, files[-2] + "mf.json"), p)
            exp = ("reject",)
        elif k in ("drop_older_manifest", "edit_older_manifest"):
            if not mf or n < 2:
                return None
            p = os.path.join(d, files[0] + "mf.json")
            if k == "drop_older_manifest":
                os.unlink(p)
            else:
                with open(p, "ab") as f:
                    f.write(b"garbage")
        elif k == "open_as_plain":
            cls_override = "ih5"
        elif k == "open_as_mf":
            cls_override = "mf"
        elif k in ("flip", "insert", "remove_byte", "truncate", "extend"):
            i = m["i"] % n
            p = os.path.join(d, files[i])
            b = bytearray(open(p, "rb").read())
            plen = len(b) - UB
            if plen <= 0:
                return None
            if "abs" in m:
                off = UB + (m["abs"] % plen)
            else:
                off = UB + min(plen - 1, int(m["off"] * plen))
            if k == "flip":
                b[off] ^= 1 << (m["bit"] % 8)
            elif k == "insert":
                b[off:off] = bytes([m.get("bit", 0) * 31 % 256])
            elif k == "remove_byte":
                del b[off]
            elif k == "truncate":
                cut = max(0, len(b) - m.get("n", 1)) if m.get("off", 0) < 0.5 else off
                b = b[:cut]
            elif k == "extend":
                b += bytes(m.get("n", 1))
            open(p, "wb").write(bytes(b))
            exp = ("reject",)
        elif k == "merged_baseless":
            from pathlib import Path

            j = m["j"]
            name = files[0][: -len(".ih5")]
            rest = [Path(os.path.join(d, f)) for f in files[j:]]
            mdir = os.path.join(d, "mb")
            os.makedirs(mdir)
            try:
                rec = self._cls._open(rest, allow_baseless=True)
                try:
                    rec.merge_files(Path(os.path.join(mdir, name)))
                finally:
                    rec.close()
            except Exception:
                return None  # merging a base-less set is refused: nothing to open
            for f in list(order):
                os.unlink(os.path.join(d, f))
                if os.path.exists(os.path.join(d, f + "mf.json")):
                    os.unlink(os.path.join(d, f + "mf.json"))
            order = []
            for f in sorted(os.listdir(mdir)):
                shutil.move(os.path.join(mdir, f), os.path.join(d, f))
                if f.endswith(".ih5"):
                    order.append(f)
            exp = ("reject",)
        elif k.startswith("tail_"):
            # an unfinished patch is put on top with the library itself, then the committed part
            # below it is corrupted
            name = files[0][: -len(".ih5")]
            try:
                rec = self._cls(os.path.join(d, name), "r+")
                rec["tail_ds"] = 5
                newf = os.path.basename(str(rec.ih5_files[-1]))
                rec.close(commit=False)
            except Exception as e:
                raise env.HarnessError(f"cannot put an uncommitted patch on the valid set: {type(e).__name__}: {e}")
            order.append(newf)
            exp = ("accept", None)  # control: opens (the view includes the unfinished patch)
            if k == "tail_flip":
                i = m["i"] % n
                pth = os.path.join(d, files[i])
                b = bytearray(open(pth, "rb").read())
                plen = len(b) - UB
                if plen <= 0:
                    return None
                b[UB + min(plen - 1, int(m["off"] * plen))] ^= 1 << (m["bit"] % 8)
                open(pth, "wb").write(bytes(b))
                exp = ("reject",)
            elif k == "tail_remove":
                f = files[m["i"] % n]
                order.remove(f)
                os.unlink(os.path.join(d, f))
                exp = ("reject",)
            elif k in ("tail_drop_manifest", "tail_manifest_flip", "tail_manifest_edit"):
                pth = os.path.join(d, files[-1] + "mf.json")
                if k == "tail_drop_manifest":
                    os.unlink(pth)
                elif k == "tail_manifest_flip":
                    b = bytearray(open(pth, "rb").read())
                    b[int(m["off"] * (len(b) - 1))] ^= 1 << (m["bit"] % 8)
                    open(pth, "wb").write(bytes(b))
                else:
                    j = json.loads(open(pth).read())
                    j["manifest_exts"] = {"tampered": True}
                    open(pth, "w").write(json.dumps(j, indent=2) + "\n")
                exp = ("reject",)
        else:
            raise env.HarnessError(f"unknown mutation {k}")
        return order, exp, cls_override

    def open_check(self, world, cls, d, order, by_name=None):
        env.settle()

        def fn():
            from pathlib import Path

            try:
                if by_name:
                    obj = cls(os.path.join(d, "foo"), by_name)
                else:
                    obj = cls([Path(os.path.join(d, f)) for f in order], "r")
            except Exception as e:
                return {"status": "raises", "exc": type(e).__name__, "msg": str(e)[:160]}
            try:
                dump, errs = V.dump_tree(obj)
            except Exception as e:
                dump, errs = None, [[type(e).__name__]]
            finally:
                try:
                    obj.close()
                except Exception:
                    pass
            return {"status": "opens", "dump": dump, "errs": errs}

        status, payload = driver.exec_isolated(fn, timeout=60)
        if status == "ok":
            return payload
        if status == "died":
            if _killed_from_outside(payload):
                raise env.HarnessError("open probe was killed from outside (SIGKILL)")
            return {"status": "hard-death"}
        if status == "timeout":
            # 60 s for opening a few small files: the host is starved, not the code slow
            raise env.HarnessError("open probe timed out")
        raise env.HarnessError(str(payload))

    # ---------------------------------------------------------------- execution

    def execute(self, case, scratch):
        faults, probes = {}, {}
        viol = []
        sigs = 0
        w, info = self.build(case, scratch)
        steps = w.steps
        if info is None:
            return {"violations": [], "faults": {}, "probes": {"build_did_not_yield_committed_record": 1}, "steps": steps, "log_digest": "0", "sig": "none", "nontrivial": False}
        env.install_uuid_seam()
        cls_of = {"ih5": w.IH5Record, "mf": w.IH5MFRecord}
        cls = cls_of["mf" if info["mf"] else "ih5"]
        self._cls = cls
        fork = self.build_fork(case, scratch, info, cls)
        foreign = self.build_foreign(case, scratch) if case["cfg"].get("foreign") else None
        n = len(info["files"])
        info["merged"] = self.build_merged(scratch, info, cls)
        muts = []
        if case["cfg"].get("structural") == "all":
            muts += [{"kind": "none"}] + expand_structural(n, info["mf"], fork is not None, fork and fork["k"], foreign is not None)
        for m in case.get("mutations", []):
            muts.append(dict(m))
        if case["cfg"].get("exhaustive"):
            for i in range(n):
                plen = os.path.getsize(os.path.join(info["dir"], info["files"][i])) - UB
                for a in range(plen):
                    muts.append({"kind": "flip", "i": i, "abs": a, "bit": a % 8})
            probes["exhaustive_payload_records"] = 1
        log = []
        md = os.path.join(scratch, "m")
        for m in muts:
            shutil.rmtree(md, ignore_errors=True)
            os.makedirs(md)
            res = self.apply_mutation(m, info, fork, foreign, md)
            if res is None:
                continue
            order, exp, override = res
            c = cls_of[override] if override else cls
            out = self.open_check(w, c, md, order)
            kind = m["kind"]
            faults[kind] = faults.get(kind, 0) + 1
            steps += 1
            sigs += 1
            log.append([kind, out["status"]])
            if out["status"] in ("hard-death", "timeout"):
                probes["open_" + out["status"]] = probes.get("open_" + out["status"], 0) + 1
                if exp[0] == "accept":
                    viol.append(self.v("rejected-valid", m, f"opening a valid set ({kind}) killed the process", case))
                    break
                continue
            if exp[0] == "reject":
                if out["status"] == "opens":
                    same = out.get("dump") == info["dumps"][-1]
                    viol.append(self.v("accepted-corrupt", m, f"mutation {json.dumps(m)} on a chain of {n} container(s) ({'MF' if info['mf'] else 'plain'}): the set opens ({'showing the original data' if same else 'showing other data'}) instead of raising", case))
                    break
                probes["rejected_as_expected"] = probes.get("rejected_as_expected", 0) + 1
            else:
                if out["status"] != "opens":
                    viol.append(self.v("rejected-valid", m, f"valid set ({json.dumps(m)}) is refused: {out.get('exc')}: {out.get('msg')}", case))
                    break
                if exp[1] is not None and (out.get("errs") or out.get("dump") != exp[1]):
                    viol.append(self.v("wrong-view", m, f"valid set ({json.dumps(m)}) opens with a different tree: {out.get('errs') or V.diff_dumps(exp[1], out.get('dump') or {})}", case))
                    break
                probes["accepted_as_expected"] = probes.get("accepted_as_expected", 0) + 1
            # the same set opened by record name (file discovery instead of an explicit list)
            if kind in BY_NAME_KINDS and order and all(f in info["files"] for f in order):
                modes = ["r"] + (["a"] if exp[0] == "reject" else [])
                stop = False
                for md_ in modes:
                    before = sorted(os.listdir(md))
                    out2 = self.open_check(w, c, md, order, by_name=md_)
                    faults["by_name:" + md_] = faults.get("by_name:" + md_, 0) + 1
                    steps += 1
                    if out2["status"] in ("hard-death", "timeout"):
                        continue
                    if exp[0] == "reject" and out2["status"] == "opens":
                        viol.append(self.v("accepted-corrupt", dict(m, by_name=md_), f"mutation {json.dumps(m)}: opening the record by name with mode {md_!r} succeeds instead of raising (files afterwards: {sorted(os.listdir(md))}, before: {before})", case))
                        stop = True
                        break
                    if exp[0] == "accept" and md_ == "r" and (out2["status"] != "opens" or out2.get("dump") != exp[1]):
                        viol.append(self.v("rejected-valid" if out2["status"] != "opens" else "wrong-view", dict(m, by_name=md_), f"valid set ({json.dumps(m)}) opened by name: {out2.get('exc') or 'different tree'}", case))
                        stop = True
                        break
                if stop:
                    break
        if not viol:
            v = self.same_process_phase(case, info, cls, md, probes, faults)
            if v:
                viol.append(v)
        shutil.rmtree(md, ignore_errors=True)
        layout = [n, info["mf"], fork is not None, foreign is not None]
        sig = hashlib.sha256(json.dumps([layout, [o["op"] for o in case["ops"]], len(muts)]).encode()).hexdigest()[:16]
        probes["mutations_applied"] = sigs
        probes[f"chain_len_{n}"] = 1
        return {
            "violations": viol,
            "faults": faults,
            "probes": probes,
            "steps": steps,
            "log_digest": hashlib.sha256(json.dumps(log).encode()).hexdigest()[:16],
            "sig": sig,
            "nontrivial": sigs > 0,
            "subcases": sigs,
        }

    def same_process_phase(self, case, info, cls, md, probes, faults):
        """State kept in memory across opens must not weaken the checks: within ONE process the
        valid set is opened, then (a) a committed payload byte is flipped in place and the same
        paths are opened again, (b) the documented allow_baseless=True option is used once and a
        base-less set is then opened without it."""
        files = info["files"]
        n = len(files)
        seedpos = sum(len(f) for f in files) + len(case["ops"])

        def fn():
            from pathlib import Path

            shutil.rmtree(md, ignore_errors=True)
            os.makedirs(md)
            for f in files:
                shutil.copyfile(os.path.join(info["dir"], f), os.path.join(md, f))
                m = os.path.join(info["dir"], f + "mf.json")
                if os.path.exists(m):
                    shutil.copyfile(m, os.path.join(md, f + "mf.json"))
            paths = [Path(os.path.join(md, f)) for f in files]
            out = {}
            try:
                o = cls(paths, "r")
                o.close()
                out["first"] = "opens"
            except Exception as e:
                out["first"] = f"raises {type(e).__name__}: {e}"[:200]
                return out
            i = seedpos % n
            p = os.path.join(md, files[i])
            b = bytearray(open(p, "rb").read())
            off = UB + (seedpos * 7919) % max(1, len(b) - UB)
            b[off] ^= 0x10
            open(p, "wb").write(bytes(b))
            out["flipped"] = [files[i], off]
            try:
                o = cls(paths, "r")
                o.close()
                out["second"] = "opens"
            except Exception as e:
                out["second"] = "raises"
            # (b) allow_baseless
            if n >= 2:
                b[off] ^= 0x10
                open(p, "wb").write(bytes(b))
                try:
                    o = cls(paths[1:], "r", allow_baseless=True)
                    o.close()
                    out["baseless_allowed"] = "opens"
                except Exception as e:
                    out["baseless_allowed"] = "raises"
                try:
                    o = cls(paths[1:], "r")
                    o.close()
                    out["baseless_after"] = "opens"
                except Exception:
                    out["baseless_after"] = "raises"
            return out

        status, out = driver.exec_isolated(fn, timeout=120)
        if status != "ok":
            probes["same_process_phase_" + status] = 1
            return None
        faults["flip_after_first_open_same_process"] = 1
        probes["same_process_phases"] = 1
        if out.get("first") != "opens":
            return self.v("rejected-valid", {"kind": "none"}, f"valid set refused in the same-process phase: {out.get('first')}", case)
        if out.get("second") == "opens":
            return self.v("accepted-corrupt", {"kind": "flip_after_open"}, f"payload byte {out['flipped'][1]} of {out['flipped'][0]} flipped after a first successful open in the same process: the second open accepts the set", case)
        if out.get("baseless_after") == "opens":
            faults["open_after_allow_baseless"] = 1
            return self.v("accepted-corrupt", {"kind": "baseless_after_allow"}, "a set without its base opens (no option given) after allow_baseless=True had been used once in the same process", case)
        if n >= 2:
            faults["open_after_allow_baseless"] = 1
        return None

    def v(self, oracle, m, detail, case):
        rc = json.loads(json.dumps(case))
        rc["cfg"]["structural"] = "none"
        rc["cfg"]["exhaustive"] = False
        rc["mutations"] = [m]
        return {"prop": "C04", "oracle": oracle, "detail": detail, "shape": m["kind"], "replay_case": rc}

    def simplify(self, case):
        return []
