"""Engine A `ih5store`: one or more IH5 records as a crash-prone versioned store.

The system under test is the real IH5Record / IH5MFRecord on real h5py/libhdf5 writing
real files below <scratch>/sut (which is the root simulated by the LD_PRELOAD shim).
The reference is one plain h5py.File per record below <scratch>/ref plus a small
life-cycle model (which containers exist, which are committed, open mode).
"""
from __future__ import annotations

import hashlib
import json
import os
import random
import shutil

from simcore import env
from simcore import treeops as T
from simcore import values as V
from simcore.rng import Rng

REC_NAMES = ["foo", "foo2", "foo-bar", "fo", "foo-bar2", "Foo", "m1", "m2", "m3", "m4", "m5", "m6", "m7", "m8", "phi", "mesh", "run-15", "mes"]
MODES = ["r", "r+", "a", "w", "w-", "x"]

LIFE_OPS = ("open", "close", "commit", "create_patch", "discard", "merge", "check_history", "apply_tail", "open_prefix", "merge_moved_manifest")


EXTRA_OPS = {}  # op kind -> handler(world, op); filled by other engines (sites)


class SimRunaway(BaseException):
    """An operation exceeded its step bound (liveness violation, not a crash)."""


class Violation(Exception):
    def __init__(self, prop, oracle, detail, shape=""):
        super().__init__(f"{prop}/{oracle}: {detail}")
        self.v = {"prop": prop, "oracle": oracle, "detail": detail, "shape": shape}


def sha_file(p):
    h = hashlib.sha256()
    with open(p, "rb") as f:
        while True:
            b = f.read(1 << 16)
            if not b:
                break
            h.update(b)
    return h.hexdigest()


# ------------------------------------------------------------------ step bound

_steps = {"n": 0, "limit": 10**9}
_wrapped = False


def install_step_bound():
    global _wrapped
    if _wrapped:
        return
    _wrapped = True
    from metador_core.ih5 import overlay as O

    def wrap(cls, name):
        orig = getattr(cls, name)

        def w(self, *a, **k):
            _steps["n"] += 1
            if _steps["n"] > _steps["limit"]:
                raise SimRunaway(f"{cls.__name__}.{name}: more than {_steps['limit']} creations in one operation")
            return orig(self, *a, **k)

        w.__name__ = name
        setattr(cls, name, w)

    wrap(O.IH5Group, "create_group")
    wrap(O.IH5Group, "create_dataset")
    wrap(O.IH5AttributeManager, "__setitem__")


# ------------------------------------------------------------------ model


class Rec:
    """Life-cycle model + handles of one record."""

    def __init__(self, idx, name, cls):
        self.idx = idx
        self.name = name
        self.cls = cls  # "ih5" | "mf"
        self.disk = []  # [{"file": basename, "committed": bool}]
        self.obj = None  # open SUT record
        self.ro = False
        self.ref = None  # open reference h5py.File (current view)
        self.commits = []  # [{"files":[basenames], "dump":..., "n":int}]
        self.protected = {}  # abs path -> sha256 (committed containers + manifests)
        self.merged_from = None  # {"src": idx, "src_ncommitted": n, "base_sha": sha} for merge targets
        self.inflight = None  # set while a commit is being performed
        self.truncating = False  # set while the record is being replaced (mode 'w')
        self.scls = cls  # class used for the current session (records may be opened with either)
        self.exts = None  # expected manifest_exts (mf)
        self.gen = 0  # incremented when the record is re-created ('w')

    @property
    def exists(self):
        return bool(self.disk)

    @property
    def is_open(self):
        return self.obj is not None

    @property
    def writable(self):
        return self.is_open and not self.ro and bool(self.disk) and not self.disk[-1]["committed"]

    def ncommitted(self):
        return sum(1 for c in self.disk if c["committed"])


class World:
    def __init__(self, scratch, cfg, tag):
        env.import_sut()
        env.install_uuid_seam()
        install_step_bound()
        from metador_core.ih5.manifest import IH5MFRecord
        from metador_core.ih5.record import IH5Record

        self.IH5Record = IH5Record
        self.IH5MFRecord = IH5MFRecord
        self.scratch = scratch
        # property under check: a passive C02 observation made while another property is in
        # focus is recorded and the run goes on, so that it cannot hide that property's own symptom
        self.focus = None
        self.deferred = []
        self.sut = os.path.join(scratch, "sut")
        self.refdir = os.path.join(scratch, "ref")
        self.tmp = os.path.join(scratch, "tmp")
        for d in (self.sut, self.refdir, self.tmp):
            os.makedirs(d, exist_ok=True)
        self.cfg = cfg
        self.recs = {}
        self.log = []
        self.faults = {}
        self.probes = {}
        self.steps = 0
        self.sh = env.shim()
        self.monitor = bool(cfg.get("monitor", True)) and self.sh.ok
        if self.monitor:
            self.sh.attach(self.sut + "/", os.path.join(scratch, "shim.log"))
        env.UUIDS.reseed(tag)
        self._perm_state = None
        self._install_find_files_seam()
        self.containers_seen = 0
        self.old_touch = 0
        self.call_events = []

    # -------------------------------------------------------------- seams

    def _install_find_files_seam(self):
        world = self
        for cls in (self.IH5Record, self.IH5MFRecord):
            pass
        orig = self.IH5Record.find_files.__func__

        def find_files(cls, record):
            res = orig(cls, record)
            if world._perm_state is not None:
                res = sorted(res)
                random.Random(world._perm_state).shuffle(res)
                world.count_fault("enum_order")
            return res

        self.IH5Record.find_files = classmethod(find_files)

    # -------------------------------------------------------------- helpers

    def count_fault(self, k, n=1):
        self.faults[k] = self.faults.get(k, 0) + n

    def probe(self, k, n=1):
        self.probes[k] = self.probes.get(k, 0) + n

    def rec(self, idx):
        idx = int(idx) % len(REC_NAMES)
        if idx not in self.recs:
            cls = self.cfg.get("classes", {}).get(str(idx), self.cfg.get("cls", "ih5"))
            self.recs[idx] = Rec(idx, REC_NAMES[idx], cls)
        return self.recs[idx]

    def klass(self, r):
        return self.IH5MFRecord if r.cls == "mf" else self.IH5Record

    def session_klass(self, r):
        return self.IH5MFRecord if r.scls == "mf" else self.IH5Record

    def path(self, r):
        return os.path.join(self.sut, r.name)

    def abspaths(self, r, files=None):
        return [os.path.join(self.sut, c) for c in (files if files is not None else [c["file"] for c in r.disk])]

    def next_file(self, r):
        n = len(r.disk)
        return f"{r.name}.ih5" if n == 0 else None

    def listing(self):
        out = {}
        for fn in sorted(os.listdir(self.sut)):
            out[fn] = sha_file(os.path.join(self.sut, fn))
        return out

    def owner_of(self, fn):
        """Which record name a file name belongs to (syntactically)."""
        base = fn.split(".")[0]
        return base

    def ref_path(self, r):
        return os.path.join(self.refdir, f"{r.name}.g{r.gen}.h5")

    def ref_snapshot_path(self, r, n):
        return os.path.join(self.refdir, f"{r.name}.g{r.gen}.commit{n}.h5")

    def new_ref(self, r):
        import h5py

        if r.ref is not None:
            r.ref.close()
        r.gen += 1
        r.ref = h5py.File(self.ref_path(r), "w")

    def snapshot_ref(self, r):
        """Remember the reference tree as of the commit just acknowledged."""
        import h5py

        n = r.ncommitted()
        p = self.ref_path(r)
        r.ref.flush()
        r.ref.close()
        shutil.copyfile(p, self.ref_snapshot_path(r, n))
        r.ref = h5py.File(p, "r+")

    def restore_ref(self, r):
        import h5py

        n = r.ncommitted()
        p = self.ref_path(r)
        r.ref.close()
        shutil.copyfile(self.ref_snapshot_path(r, n), p)
        r.ref = h5py.File(p, "r+")

    # -------------------------------------------------------------- oracles

    def check_view(self, r, prop="C01", oracle="view-eq", extra=""):
        got, errs = V.dump_tree(r.obj)
        want, _ = V.dump_tree(r.ref)
        if errs:
            raise Violation(prop, oracle + "-read-error", f"{extra} reading the view raised: {errs[:3]}", shape="read-error")
        if got != want:
            d = V.diff_dumps(want, got)
            raise Violation(prop, oracle, f"{extra} view differs from the plain tree (reference vs IH5): {d}")
        return got

    def check_navigation(self, r):
        """Other access paths must agree with the dump (C01)."""
        want, _ = V.dump_tree(r.ref)
        obj = r.obj
        kids = {}
        for p in want:
            if p != "/":
                kids.setdefault(T.Shadow.parent(p), []).append(p.rsplit("/", 1)[1])
        for p, ent in want.items():
            try:
                if p not in obj:
                    raise Violation("C01", "nav", f"'{p}' in record is False although the node exists")
                n = obj[p]
                if n.name != p:
                    raise Violation("C01", "nav", f"record['{p}'].name == {n.name!r}")
                if p != "/":
                    par = T.Shadow.parent(p)
                    if n.parent.name != par:
                        raise Violation("C01", "nav", f"record['{p}'].parent.name == {n.parent.name!r}")
                    leaf = p.rsplit("/", 1)[1]
                    g = obj[par]
                    if leaf not in g or g[leaf].name != p or g.get(leaf) is None:
                        raise Violation("C01", "nav", f"relative lookup of '{leaf}' from '{par}' fails")
                if ent[0] == "g":
                    ks = sorted(n.keys())
                    if ks != sorted(kids.get(p, [])) or len(n) != len(ks) or sorted(iter(n)) != ks:
                        raise Violation("C01", "nav", f"keys/len/iter of '{p}' = {ks} but children are {sorted(kids.get(p, []))}")
                    if sorted(k for k, _ in n.items()) != ks or len(list(n.values())) != len(ks):
                        raise Violation("C01", "nav", f"items/values of '{p}' disagree with keys")
                    ak = sorted(n.attrs.keys())
                    if ak != sorted(ent[1]) or len(n.attrs) != len(ak):
                        raise Violation("C01", "nav", f"attrs.keys of '{p}' = {ak}, expected {sorted(ent[1])}")
                else:
                    ak = sorted(n.attrs.keys())
                    if ak != sorted(ent[2]):
                        raise Violation("C01", "nav", f"attrs.keys of '{p}' = {ak}, expected {sorted(ent[2])}")
                    for k, v in ent[2].items():
                        if V.norm(n.attrs[k]) != v or k not in n.attrs:
                            raise Violation("C01", "nav", f"attrs['{k}'] of '{p}' differs")
            except Violation:
                raise
            except Exception as e:
                raise Violation("C01", "nav", f"navigating to '{p}' raised {type(e).__name__}: {e}")

    def check_absent(self, r, paths):
        want = r.ref
        for p in paths:
            if p in ("/", ""):
                continue
            # paths running through a dataset are simply absent (h5py: "in" False, get None)
            try:
                exp = p in want
            except Exception:
                continue
            try:
                got = p in r.obj
                g2 = r.obj.get(p) is not None
            except Exception as e:
                raise Violation("C01", "membership", f"'{p}' in record raised {type(e).__name__}: {e}")
            if got != exp or g2 != exp:
                raise Violation("C01", "membership", f"'{p}' in record == {got} / get -> {g2}, plain tree says {exp}")

    def passive(self, fn):
        """Run a passive oracle of a property other than the one in focus: its violation is
        recorded and the run goes on (it must not hide the focus property's own symptom)."""
        try:
            fn()
        except Violation as e:
            if self.focus is None or e.v["prop"] == self.focus:
                raise
            if len(self.deferred) < 3:
                self.deferred.append(dict(e.v))
            self.probe("foreign_observation_deferred")

    def check_protected(self, opdesc):
        """C02: committed files unchanged (hash) and no monitored modifying write."""

        def report(v, after=None):
            if self.focus in (None, "C02"):
                raise v
            if len(self.deferred) < 3:
                self.deferred.append(dict(v.v))
            self.probe("c02_observation_deferred")
            if after:
                after()

        for r in self.recs.values():
            for p, h in list(r.protected.items()):
                if not os.path.exists(p):
                    report(Violation("C02", "committed-file-removed", f"{os.path.basename(p)} vanished during {opdesc}", shape="removed"), lambda: r.protected.pop(p, None))
                    continue
                h2 = sha_file(p)
                if h2 != h:
                    report(Violation("C02", "committed-bytes-changed", f"{os.path.basename(p)} changed during {opdesc}", shape="hash"), lambda: r.protected.__setitem__(p, h2))
        if self.monitor:
            for ev in self.sh.drain():
                if ev[0] == "CALL":
                    self.call_events.append(ev)
                    continue
                if ev[0] == "MODIFY":
                    report(Violation("C02", "modifying-write", f"{ev[1]} on committed {os.path.basename(ev[2])} (off {ev[3]} len {ev[4]}) during {opdesc}", shape=ev[1]))
                if ev[0] == "REWRITE":
                    self.probe("identical_rewrite_of_committed")

    def protect(self, r):
        """Called after a commit was acknowledged: freeze all committed files of r."""
        for c in r.disk:
            if c["committed"]:
                p = os.path.join(self.sut, c["file"])
                if not os.path.exists(p):
                    raise Violation("C03", "acknowledged-container-missing", f"container {c['file']} was acknowledged as committed but its file does not exist", shape="missing")
                if p not in r.protected:
                    r.protected[p] = sha_file(p)
                    if self.monitor:
                        self.sh.protect(p)
                if r.cls == "mf":
                    m = p + "mf.json"
                    if os.path.exists(m) and m not in r.protected:
                        r.protected[m] = sha_file(m)
                        if self.monitor:
                            self.sh.protect(m)

    def unprotect_all(self, r):
        for p in r.protected:
            if self.monitor:
                self.sh.unprotect(p)
        r.protected = {}

    def check_list_records(self):
        want = sorted(self.path(r) for r in self.recs.values() if r.exists)
        try:
            got = sorted(str(p) for p in self.IH5Record.list_records(self.sut))
        except Exception as e:
            raise Violation("C03", "list-records", f"list_records raised {type(e).__name__}: {e}")
        if got != want:
            raise Violation("C03", "list-records", f"list_records = {[os.path.basename(g) for g in got]}, live records = {[os.path.basename(w) for w in want]}")

    def check_chain_meta(self, r):
        """ih5_meta consistent with the life-cycle model (C03)."""
        meta = r.obj.ih5_meta
        if len(meta) != len(r.disk):
            raise Violation("C03", "container-count", f"record has {len(meta)} containers, model expects {len(r.disk)} ({[c['file'] for c in r.disk]})")
        for i, (m, c) in enumerate(zip(meta, r.disk)):
            if (m.hdf5_hashsum is not None) != c["committed"]:
                raise Violation("C03", "commit-state", f"container {i} committed={m.hdf5_hashsum is not None}, model says {c['committed']}")

    # -------------------------------------------------------------- life cycle ops

    def pre_commit(self, r):
        """Before the SUT is asked to commit: remember the state that is in flight."""
        import h5py

        p = self.ref_path(r)
        r.ref.flush()
        r.ref.close()
        shutil.copyfile(p, p + ".pending")
        r.ref = h5py.File(p, "r+")
        dump, _ = V.dump_tree(r.ref)
        r.inflight = {"dump": dump, "files": [c["file"] for c in r.disk]}
        self.save_carry()

    def abort_commit(self, r):
        if getattr(self, "io_fault_active", False):
            # the commit raised under an injected I/O error: it may have landed nevertheless
            self.save_carry()
            return
        r.inflight = None
        self.save_carry()

    def post_commit(self, r, opened=True, shape_only=False):
        """Book-keeping after the SUT acknowledged a commit of the newest container."""
        r.disk[-1]["committed"] = True
        n = r.ncommitted()
        os.replace(self.ref_path(r) + ".pending", self.ref_snapshot_path(r, n))
        r.commits.append({"files": [c["file"] for c in r.disk], "dump": r.inflight["dump"], "n": n})
        r.inflight = None
        self.protect(r)
        self.save_carry()
        self.containers_seen = max(self.containers_seen, len(r.disk))
        if r.scls == "mf":
            if r.cls != "mf":
                r.cls = "mf"  # committing through IH5MFRecord turns it into a manifest record
            if opened:
                self.passive(lambda: self.check_manifest(r, shape_only=shape_only))
            else:
                self.passive(lambda: self.check_manifest_closed(r))
        else:
            r.exts = None  # committed without manifest: the chain of manifests is interrupted
        self.check_merge_descendants(r)

    # -------------------------------------------------------------- carry (crash epochs)

    def save_carry(self):
        if not self.cfg.get("carry"):
            return
        out = {}
        for i, r in self.recs.items():
            out[str(i)] = {
                "name": r.name,
                "cls": r.cls,
                "disk": r.disk,
                "commits": r.commits,
                "protected": {os.path.basename(k): v for k, v in r.protected.items()},
                "gen": r.gen,
                "exts": r.exts,
                "inflight": r.inflight,
                "merged_from": r.merged_from,
                "truncating": r.truncating,
            }
        p = os.path.join(self.scratch, "carry.json")
        with open(p + ".tmp", "w") as f:
            json.dump(out, f)
        os.replace(p + ".tmp", p)

    def load_carry(self):
        p = os.path.join(self.scratch, "carry.json")
        if not os.path.exists(p):
            return
        with open(p) as f:
            data = json.load(f)
        for i, d in data.items():
            r = self.rec(int(i))
            r.cls = d["cls"]
            r.disk = d["disk"]
            r.commits = d["commits"]
            r.protected = {os.path.join(self.sut, k): v for k, v in d["protected"].items()}
            r.gen = d["gen"]
            r.exts = d["exts"]
            r.inflight = d["inflight"]
            r.merged_from = d["merged_from"]
            r.truncating = d.get("truncating", False)

    def check_manifest(self, r, shape_only=False):
        """C10 (shared): manifest on disk matches hash+uuid in the user block; skeleton current."""
        from metador_core.ih5.manifest import IH5Manifest, IH5UBExtManifest
        from metador_core.ih5.skeleton import IH5Skeleton

        ub = r.obj.ih5_meta[-1]
        ext = IH5UBExtManifest.get(ub)
        cfile = os.path.join(self.sut, r.disk[-1]["file"])
        mfile = cfile + "mf.json"
        if ext is None:
            raise Violation("C10", "manifest-link", f"{r.disk[-1]['file']}: committed by IH5MFRecord but user block has no manifest extension")
        if not os.path.exists(mfile):
            raise Violation("C10", "manifest-link", f"manifest file of {r.disk[-1]['file']} missing after commit")
        data = open(mfile, "rb").read()
        if "sha256:" + hashlib.sha256(data).hexdigest() != ext.manifest_hashsum:
            raise Violation("C10", "manifest-hash", f"manifest bytes of {r.disk[-1]['file']} do not hash to the user block's manifest_hashsum")
        mf = IH5Manifest.parse_raw(data)
        if mf.manifest_uuid != ext.manifest_uuid:
            raise Violation("C10", "manifest-uuid", "manifest uuid differs from the one in the user block")
        skel = IH5Skeleton.for_record(r.obj)
        if shape_only:
            # manifest made on a stub: patch indices of untouched nodes cannot be known there
            def shape(sk):
                return {p: (str(n.node_type), sorted(n.attrs)) for p, n in sk.__root__.items()}

            if shape(mf.skeleton) != shape(skel):
                raise Violation("C10", "manifest-skeleton", "skeleton in the manifest of the stub-made patch differs from the record's paths / node kinds / attribute names")
        elif mf.skeleton != skel:
            raise Violation("C10", "manifest-skeleton", "manifest skeleton differs from IH5Skeleton.for_record(record)")
        try:
            loaded = r.obj.manifest.manifest_uuid
        except Exception as e:
            raise Violation("C10", "manifest-loaded", f"record.manifest raised {type(e).__name__}: {e} although the newest container is committed")
        if loaded != mf.manifest_uuid:
            raise Violation("C10", "manifest-loaded", "record.manifest is not the manifest on disk")
        if r.exts is not None and mf.manifest_exts != r.exts:
            raise Violation("C10", "manifest-exts", f"manifest_exts after commit = {mf.manifest_exts}, expected {r.exts} to persist", shape="exts-lost")
        if r.exts is None:
            r.exts = mf.manifest_exts

    def op_open(self, op):
        r = self.rec(op["rec"])
        if r.is_open:
            return "skip"
        mode = op["mode"]
        by = op.get("by", "name")
        perm = op.get("perm")
        r.scls = op.get("as") or r.cls
        if r.scls != r.cls:
            self.count_fault("open_with_other_record_class")
        cls = self.session_klass(r)
        before = self.listing()
        was_present = r.exists
        last_committed = r.disk[-1]["committed"] if r.disk else None
        # expectation
        if by == "list":
            if not was_present or mode in ("w", "x", "w-"):
                expect = "raise"
            else:
                expect = "open"
        else:
            if not was_present:
                expect = "raise" if mode in ("r", "r+") else "create"
            else:
                expect = {"r": "open", "r+": "open", "a": "open", "w": "truncate", "w-": "raise", "x": "raise"}[mode]
        if expect == "truncate":
            self.unprotect_all(r)
            r.commits = []
            r.inflight = None
            r.truncating = True
            self.save_carry()
        arg = None
        if by == "list":
            files = self.abspaths(r)
            if perm is not None:
                random.Random(perm).shuffle(files)
                self.count_fault("reopen_by_list_perm")
            from pathlib import Path

            arg = [Path(f) for f in files]
        else:
            arg = self.path(r)
            self._perm_state = perm
        self.count_fault("reopen_mode")
        self.matrix_cell(mode, r)
        kwargs = {}
        if op.get("manifest_kw") and r.scls == "mf" and was_present and last_committed and mode in ("r", "r+", "a"):
            # the public keyword naming the manifest explicitly (here: the default location)
            from pathlib import Path as _P

            mpath = os.path.join(self.sut, r.disk[-1]["file"] + "mf.json")
            if os.path.exists(mpath):
                kwargs["manifest_file"] = _P(mpath)
                self.probe("open_with_manifest_file_keyword")
        try:
            obj = cls(arg, mode, **kwargs)
            ok, exc = True, None
        except SimRunaway:
            raise
        except Exception as e:
            obj, ok, exc = None, False, e
        finally:
            self._perm_state = None
        r.truncating = False
        after = self.listing()
        sit = self.situation_before(was_present, last_committed, r)
        if expect == "raise":
            if ok:
                try:
                    obj.close(commit=False)
                except Exception:
                    pass
                raise Violation("C03", "open-mode", f"open({by}, mode={mode!r}) on {sit} record succeeded, must be refused", shape=f"{mode}/{sit}")
            if before != after:
                raise Violation("C03", "refused-open-touched-files", f"refused open(mode={mode!r}) on {sit} record changed files: {self.listing_diff(before, after)}", shape=f"{mode}/{sit}")
            return f"raise:{type(exc).__name__}"
        if not ok:
            raise Violation("C03", "open-mode", f"open({by}, mode={mode!r}) on {sit} record raised {type(exc).__name__}: {exc}", shape=f"{mode}/{sit}")
        # files of other records must be untouched in every mode
        for fn in set(before) | set(after):
            if self.owner_of(fn) != r.name and before.get(fn) != after.get(fn):
                obj.close(commit=False)
                raise Violation("C03", "open-touched-sibling", f"open of '{r.name}' (mode {mode!r}) changed file '{fn}' of another record", shape=mode)
        r.obj = obj
        r.ro = mode == "r"
        if expect in ("create", "truncate"):
            r.cls = r.scls
        if expect == "create":
            r.disk = [{"file": f"{r.name}.ih5", "committed": False}]
            self.new_ref(r)
            r.commits = []
            r.exts = None
            r.merged_from = None
            newfiles = sorted(set(after) - set(before))
            if newfiles != [f"{r.name}.ih5"] or any(before[f] != after[f] for f in before):
                raise Violation("C03", "create-files", f"creating '{r.name}' (mode {mode!r}) produced {self.listing_diff(before, after)}")
        elif expect == "truncate":
            gone = [c["file"] for c in r.disk]
            r.disk = [{"file": f"{r.name}.ih5", "committed": False}]
            self.new_ref(r)
            r.commits = []
            r.exts = None
            r.merged_from = None
            left = [f for f in after if f.endswith(".ih5") and self.owner_of(f) == r.name and f != f"{r.name}.ih5"]
            if left:
                raise Violation("C03", "w-left-containers", f"mode 'w' left old container files {left}")
            stale = [f for f in after if f.endswith("mf.json") and self.owner_of(f) == r.name]
            if stale:
                self.probe("stale_mf_sidecar_after_w", len(stale))
            if not r.obj._is_empty():
                raise Violation("C03", "w-not-empty", "record opened with 'w' is not empty")
        else:  # open existing
            import h5py

            if r.ref is None:
                r.ref = h5py.File(self.ref_path(r), "r+")
            if mode == "r":
                if before != after:
                    raise Violation("C03", "r-open-touched-files", f"open in 'r' changed files: {self.listing_diff(before, after)}", shape=sit)
                # 'r' is strictly read-only also for the record object that nodes hand out as .file
                via = None
                try:
                    fobj = obj["/"].file
                    via = fobj.mode
                    fobj.create_patch()
                    escaped = True
                except Exception:
                    escaped = False
                after2 = self.listing()
                if escaped or after2 != after:
                    raise Violation("C03", "r-mode-escape", f"record opened with 'r': node.file.create_patch() {'succeeded' if escaped else 'raised'} (node.file.mode = {via!r}), files afterwards: {self.listing_diff(after, after2)}", shape="file.create_patch")
                if via != "r":
                    raise Violation("C03", "r-mode-escape", f"record opened with 'r': node.file.mode is {via!r}", shape="file.mode")
            else:
                if last_committed:
                    nf = f"{r.name}.p{self.next_index(r)}.ih5"
                    r.disk.append({"file": nf, "committed": False})
                    newfiles = sorted(set(after) - set(before))
                    if newfiles != [nf]:
                        raise Violation("C03", "open-new-patch", f"open(mode {mode!r}) on committed record created {newfiles}, expected exactly [{nf}]")
                else:
                    newfiles = sorted(set(after) - set(before))
                    if newfiles:
                        raise Violation("C03", "open-continue-patch", f"open(mode {mode!r}) on a record with an uncommitted patch created {newfiles}")
        self.check_chain_meta(r)
        if obj.mode != ("r" if r.ro else "r+"):
            raise Violation("C03", "mode-attr", f"record.mode == {obj.mode!r} after open with {mode!r}")
        if r.writable != bool(obj._has_writable):
            raise Violation("C03", "writable-state", f"writable container present = {obj._has_writable}, model expects {r.writable}")
        # the view after (re)opening must be the view before closing == reference
        self.check_view(r, "C03", "reopen-view", extra=f"after open({by},{mode!r})")
        return "ok"

    def op_open_prefix(self, op):
        """Open only the oldest containers of a closed, fully committed record by explicit
        list: read-only it must show the state of that commit; writable it must be refused
        (the next patch file exists already) without touching anything."""
        from pathlib import Path

        r = self.rec(op["rec"])
        if r.is_open or not r.exists or not all(c["committed"] for c in r.disk) or len(r.disk) < 2:
            return "skip"
        j = 1 + int(op.get("j", 0)) % (len(r.disk) - 1)
        keep = r.disk[: len(r.disk) - j]
        mode = op.get("mode", "r")
        files = [Path(os.path.join(self.sut, c["file"])) for c in keep]
        if op.get("perm") is not None:
            random.Random(op["perm"]).shuffle(files)
        before = self.listing()
        cls = self.klass(r)
        self.probe(f"open_prefix:{mode}")
        try:
            obj = cls(files, mode)
            ok, exc = True, None
        except Exception as e:
            obj, ok, exc = None, False, e
        after = self.listing()
        if mode == "r":
            if not ok:
                raise Violation("C02", "historic-set-unopenable", f"the first {len(keep)} containers of a committed chain do not open read-only: {type(exc).__name__}: {exc}")
            try:
                got, errs = V.dump_tree(obj)
                want = next((c["dump"] for c in r.commits if c["files"] == [c2["file"] for c2 in keep]), None)
                if want is not None and (errs or got != want):
                    raise Violation("C02", "historic-view", f"the first {len(keep)} containers show another state than at their commit: {errs[:2] or V.diff_dumps(want, got)}")
            finally:
                obj.close()
            if before != after:
                raise Violation("C03", "r-open-touched-files", f"read-only open of a chain prefix changed files: {self.listing_diff(before, after)}")
            return "ok"
        # writable: the name of the next patch is taken -> must be refused, nothing may change
        if ok:
            try:
                obj.close(commit=False)
            except Exception:
                pass
        both = []
        if before != self.listing():
            both.append(Violation("C02", "committed-bytes-changed", f"open(mode={mode!r}) of the first {len(keep)} of {len(r.disk)} containers changed files: {self.listing_diff(before, self.listing())}", shape="prefix-open"))
        if ok:
            both.append(Violation("C03", "open-mode", f"open(mode={mode!r}) of a proper prefix of the chain succeeded although the next patch file exists", shape="prefix-open"))
        if both:
            both.sort(key=lambda v: v.v["prop"] != self.focus)  # the checked property's symptom first
            both[0].also = [v.v for v in both[1:]]
            raise both[0]
        return f"raise:{type(exc).__name__}"

    def next_index(self, r):
        return r.obj.ih5_meta[len(r.disk) - 1].patch_index + 1 if r.is_open else len(r.disk)

    def situation_before(self, was_present, last_committed, r):
        if not was_present:
            return "absent"
        n = len(r.disk) if not r.is_open else len(r.disk)
        # r.disk may already have been updated; classify from what we know
        if last_committed:
            return "committed-base" if n == 1 else "patched"
        return "uncommitted-base" if n == 1 else "uncommitted-patch"

    def matrix_cell(self, mode, r):
        if not r.exists:
            sit = "absent"
        elif r.disk[-1]["committed"]:
            sit = "committed-base" if len(r.disk) == 1 else "patched"
        else:
            sit = "uncommitted-base" if len(r.disk) == 1 else "uncommitted-patch"
        self.probe(f"open:{mode}:{sit}")

    @staticmethod
    def listing_diff(a, b):
        out = []
        for f in sorted(set(a) | set(b)):
            if f not in a:
                out.append("+" + f)
            elif f not in b:
                out.append("-" + f)
            elif a[f] != b[f]:
                out.append("~" + f)
        return out

    def op_close(self, op):
        r = self.rec(op["rec"])
        if not r.is_open:
            return "skip"
        commit = bool(op.get("commit", True))
        via = op.get("via", "close") if commit else "close"
        will_commit = commit and r.writable
        if will_commit:
            self.pre_commit(r)
        try:
            if via == "exit":
                # leaving a `with` block normally
                r.obj.__exit__(None, None, None)
            elif via == "exit_exc":
                # leaving a `with` block because its body raised: the documented effect is the
                # same as close() (commit what is pending, touch nothing else)
                try:
                    raise RuntimeError("body of the with block failed")
                except RuntimeError as be:
                    r.obj.__exit__(type(be), be, be.__traceback__)
            else:
                r.obj.close(commit=commit)
        except SimRunaway:
            raise
        except Exception as e:
            raise Violation("C03", "close-raised", f"close(commit={commit}, via {via}) raised {type(e).__name__}: {e}")
        self.count_fault("restart_clean" if commit else "restart_abort")
        obj = r.obj
        r.obj = None
        if will_commit:
            self.post_commit(r, opened=False)
        r.ref.flush()
        # closed object must refuse use
        try:
            obj.keys()
            used = True
        except Exception:
            used = False
        if used:
            self.probe("closed_record_still_usable")
        return "ok"

    def check_manifest_closed(self, r):
        from metador_core.ih5.manifest import IH5Manifest, IH5UBExtManifest
        from metador_core.ih5.record import IH5UserBlock

        cfile = os.path.join(self.sut, r.disk[-1]["file"])
        ub = IH5UserBlock.load(cfile)
        ext = IH5UBExtManifest.get(ub)
        mfile = cfile + "mf.json"
        if ext is None or not os.path.exists(mfile):
            raise Violation("C10", "manifest-link", f"{r.disk[-1]['file']}: no manifest (extension) after the commit done by close()")
        data = open(mfile, "rb").read()
        if "sha256:" + hashlib.sha256(data).hexdigest() != ext.manifest_hashsum:
            raise Violation("C10", "manifest-hash", "manifest bytes do not hash to manifest_hashsum (commit by close)")
        mf = IH5Manifest.parse_raw(data)
        if mf.manifest_uuid != ext.manifest_uuid:
            raise Violation("C10", "manifest-uuid", "manifest uuid differs from user block (commit by close)")
        if r.exts is not None and mf.manifest_exts != r.exts:
            raise Violation("C10", "manifest-exts", f"manifest_exts after commit = {mf.manifest_exts}, expected {r.exts} to persist", shape="exts-lost")
        if r.exts is None:
            r.exts = mf.manifest_exts

    def op_commit(self, op):
        r = self.rec(op["rec"])
        if not r.is_open:
            return "skip"
        expect_ok = r.writable
        kwargs = {}
        if r.scls == "mf" and op.get("exts") is not None:
            kwargs["manifest_exts"] = op["exts"]
        if expect_ok:
            self.pre_commit(r)
        try:
            r.obj.commit_patch(**kwargs)
            ok, exc = True, None
        except SimRunaway:
            raise
        except Exception as e:
            ok, exc = False, e
        if expect_ok and not ok:
            self.abort_commit(r)
        if ok != expect_ok:
            raise Violation("C03", "commit-outcome", f"commit_patch {'succeeded' if ok else 'raised ' + type(exc).__name__ + ': ' + str(exc)} (mode {'r' if r.ro else 'r+'}, writable container: {expect_ok})")
        if ok:
            self.count_fault("boundary")
            if "manifest_exts" in kwargs:
                r.exts = kwargs["manifest_exts"]
            self.post_commit(r)
            if r.obj._has_writable:
                raise Violation("C03", "commit-state", "record still has a writable container after commit_patch")
            return "ok"
        return f"raise:{type(exc).__name__}"

    def op_create_patch(self, op):
        r = self.rec(op["rec"])
        if not r.is_open:
            return "skip"
        expect_ok = (not r.ro) and r.exists and r.disk[-1]["committed"]
        before = self.listing()
        nxt = None
        if expect_ok:
            nxt = f"{r.name}.p{self.next_index(r)}.ih5"
        try:
            r.obj.create_patch()
            ok, exc = True, None
        except SimRunaway:
            raise
        except Exception as e:
            ok, exc = False, e
        if ok != expect_ok:
            raise Violation("C03", "create-patch-outcome", f"create_patch {'succeeded' if ok else 'raised ' + type(exc).__name__} (read-only: {r.ro}, newest committed: {r.disk[-1]['committed'] if r.disk else None})")
        after = self.listing()
        if ok:
            r.disk.append({"file": nxt, "committed": False})
            if sorted(set(after) - set(before)) != [nxt] or any(before[f] != after[f] for f in before):
                raise Violation("C02", "create-patch-files", f"create_patch changed {self.listing_diff(before, after)}, expected only +{nxt}")
            return "ok"
        if before != after:
            raise Violation("C03", "refused-op-touched-files", f"refused create_patch changed {self.listing_diff(before, after)}")
        return f"raise:{type(exc).__name__}"

    def op_discard(self, op):
        r = self.rec(op["rec"])
        if not r.is_open:
            return "skip"
        expect_ok = r.writable and len(r.disk) > 1
        before = self.listing()
        try:
            r.obj.discard_patch()
            ok, exc = True, None
        except SimRunaway:
            raise
        except Exception as e:
            ok, exc = False, e
        if ok != expect_ok:
            raise Violation("C03", "discard-outcome", f"discard_patch {'succeeded' if ok else 'raised ' + type(exc).__name__} (writable: {r.writable}, containers: {len(r.disk)})")
        after = self.listing()
        if ok:
            self.count_fault("discard")
            gone = r.disk.pop()["file"]
            if self.listing_diff(before, after) != ["-" + gone]:
                raise Violation("C03", "discard-files", f"discard_patch changed {self.listing_diff(before, after)}, expected only -{gone}")
            self.restore_ref(r)
            self.check_view(r, "C03", "discard-view", extra="after discard_patch")
            return "ok"
        if before != after:
            raise Violation("C03", "refused-op-touched-files", f"refused discard_patch changed {self.listing_diff(before, after)}")
        return f"raise:{type(exc).__name__}"

    # -------------------------------------------------------------- merge (C05)

    def op_merge(self, op):
        r = self.rec(op["rec"])
        if not r.is_open:
            return "skip"
        t = self.rec(op["target"])
        if t.idx == r.idx:
            return "skip"
        uncommitted = r.exists and not r.disk[-1]["committed"]
        expect_ok = (not uncommitted) and (not t.exists)
        before = self.listing()
        meta_before = [m.json() for m in r.obj.ih5_meta]
        mf_before = r.obj.manifest.json() if (r.scls == "mf" and r.obj._manifest is not None) else None
        from pathlib import Path

        if not t.exists:
            t.truncating = True  # target files are in the making: nothing is promised about them
            self.save_carry()
        try:
            res = r.obj.merge_files(Path(self.path(t)))
            ok, exc = True, None
        except SimRunaway:
            raise
        except Exception as e:
            ok, exc = False, e
        t.truncating = False
        after = self.listing()
        self.count_fault("merge")
        if uncommitted and ok:
            raise Violation("C05", "merge-uncommitted", f"merge succeeded although the newest container of the source is uncommitted (source opened {'read-only' if r.ro else 'writable'})", shape="ro" if r.ro else "rw")
        if not ok:
            if expect_ok:
                raise Violation("C05", "merge-raised", f"merge of a fully committed record raised {type(exc).__name__}: {exc}")
            # refused: nothing usable may be created, nothing else may change
            diff = self.listing_diff(before, after)
            bad = [d for d in diff if not (d.startswith("+") and self.owner_of(d[1:]) == t.name)] if not t.exists else diff
            if bad:
                raise Violation("C05", "refused-merge-touched-files", f"refused merge changed {bad}")
            if not t.exists and [d for d in diff if d.startswith("+")]:
                self.probe("refused_merge_left_files")
                # left-over target files would block later use of that name; remove them from the world
                for d in diff:
                    if d.startswith("+"):
                        os.unlink(os.path.join(self.sut, d[1:]))
            return f"raise:{type(exc).__name__}"
        # success
        if not expect_ok:
            raise Violation("C05", "merge-outcome", "merge succeeded onto an existing target record")
        if [m.json() for m in r.obj.ih5_meta] != meta_before:
            raise Violation("C05", "source-meta-changed", "ih5_meta of the still-open source differs before/after merge_files", shape="ih5_meta")
        if r.scls == "mf" and mf_before is not None and r.obj.manifest.json() != mf_before:
            raise Violation("C05", "source-meta-changed", "manifest of the still-open source differs before/after merge", shape="manifest")
        self.check_view(r, "C05", "source-view-changed", extra="source after merge")
        tfile = f"{t.name}.ih5"
        exp_new = [tfile] + ([tfile + "mf.json"] if r.scls == "mf" else [])
        diff = self.listing_diff(before, after)
        if sorted(diff) != sorted("+" + f for f in exp_new):
            raise Violation("C05", "merge-files", f"merge changed {diff}, expected {['+' + f for f in exp_new]}")
        if os.path.basename(str(res)) != tfile:
            raise Violation("C05", "merge-result", f"merge_files returned {res}")
        # model of the merged record
        t.cls = r.scls
        t.scls = r.scls
        t.disk = [{"file": tfile, "committed": True}]
        t.gen += 1
        r.ref.flush()
        if t.ref is not None:
            t.ref.close()
        import h5py

        shutil.copyfile(self.ref_path(r), self.ref_path(t))
        t.ref = h5py.File(self.ref_path(t), "r+")
        t.exts = r.exts
        shutil.copyfile(self.ref_path(t), self.ref_snapshot_path(t, 1))
        dump, _ = V.dump_tree(t.ref)
        t.commits = [{"files": [tfile], "dump": dump, "n": 1}]
        self.protect(t)
        t.merged_from = {"src": r.idx, "src_gen": r.gen, "src_n": len(r.disk), "file": tfile, "sha": sha_file(os.path.join(self.sut, tfile))}
        # the merged record on its own
        src_meta = r.obj.ih5_meta
        cls = self.klass(t)
        try:
            m = cls(self.path(t), "r")
        except Exception as e:
            raise Violation("C05", "merged-unopenable", f"merged record does not open: {type(e).__name__}: {e}")
        try:
            mm = m.ih5_meta
            if len(mm) != 1:
                raise Violation("C05", "merged-identity", f"merged record has {len(mm)} containers")
            if mm[0].record_uuid != src_meta[-1].record_uuid or mm[0].patch_uuid != src_meta[-1].patch_uuid or mm[0].patch_index != src_meta[-1].patch_index:
                raise Violation("C05", "merged-identity", "merged container does not carry the source's record uuid / newest patch uuid / patch index")
            if mm[0].prev_patch is not None and src_meta[0].prev_patch is None:
                raise Violation("C05", "merged-identity", "merged container is not a base container")
            got, errs = V.dump_tree(m)
            want, _ = V.dump_tree(r.ref)
            if errs or got != want:
                raise Violation("C05", "merged-view", f"merged tree differs from the source's overlay view: {errs[:2] or V.diff_dumps(want, got)}")
            if r.scls == "mf" and mf_before is not None:
                if m.manifest.json() != r.obj.manifest.json():
                    raise Violation("C05", "merged-manifest", "manifest of the merged record is not the source's latest manifest")
        finally:
            m.close()
        return "ok"

    def op_merge_moved_manifest(self, op):
        """The manifest of the newest container lives elsewhere and is named explicitly with
        manifest_file= (documented keyword); merging must carry the *loaded* manifest over."""
        from pathlib import Path

        r = self.rec(op["rec"])
        t = self.rec(op["target"])
        if r.is_open or r.cls != "mf" or not r.exists or not all(c["committed"] for c in r.disk) or t.exists or t.idx == r.idx:
            return "skip"
        canonical = os.path.join(self.sut, r.disk[-1]["file"] + "mf.json")
        if not os.path.exists(canonical):
            return "skip"
        moved = os.path.join(self.tmp, f"moved-manifest-{self.steps}.json")
        h = r.protected.pop(canonical, None)
        if self.monitor and h is not None:
            self.sh.unprotect(canonical)
        shutil.move(canonical, moved)
        self.probe("merge_with_manifest_elsewhere")
        try:
            try:
                obj = self.IH5MFRecord(self.path(r), "r", manifest_file=Path(moved))
            except Exception as e:
                raise Violation("C03", "open-mode", f"open with an explicit manifest_file= (manifest stored elsewhere) raised {type(e).__name__}: {e}", shape="manifest_file")
            r.obj, r.ro, r.scls = obj, True, "mf"
            try:
                if r.ref is None:
                    import h5py

                    r.ref = h5py.File(self.ref_path(r), "r+")
                out = self.op_merge({"rec": r.idx, "target": t.idx})
            finally:
                try:
                    obj.close()
                finally:
                    r.obj = None
        finally:
            shutil.move(moved, canonical)
            if h is not None:
                r.protected[canonical] = h
                if self.monitor:
                    self.sh.protect(canonical)
        return out

    def check_merge_descendants(self, r):
        """After the source committed another patch: [merged] + later patches == source."""
        for t in self.recs.values():
            mf = t.merged_from
            if not mf or mf["src"] != r.idx or mf["src_gen"] != r.gen:
                continue
            p = os.path.join(self.sut, mf["file"])
            if not os.path.exists(p) or sha_file(p) != mf["sha"]:
                continue  # merged base was legitimately replaced ('w')
            later = [c["file"] for c in r.disk[mf["src_n"] :] if c["committed"]]
            if not later:
                continue
            self.apply_tail(r, t, p, later)

    def apply_tail(self, r, t, merged_path, later):
        from pathlib import Path

        cls = self.klass(r)
        files = [Path(merged_path)] + [Path(os.path.join(self.sut, f)) for f in later]
        kwargs = {}
        if r.cls == "mf":
            pass
        self.probe("merge_followup_patch_applied", len(later))
        try:
            m = cls(files, "r")
        except Exception as e:
            raise Violation("C05", "tail-unopenable", f"[merged] + {later} does not open: {type(e).__name__}: {e}")
        try:
            got, errs = V.dump_tree(m)
            want = r.commits[-1]["dump"]
            if errs or got != want:
                raise Violation("C05", "tail-view", f"[merged] + later source patches differs from source: {errs[:2] or V.diff_dumps(want, got)}")
        finally:
            m.close()

    # -------------------------------------------------------------- history (C02)

    def op_check_history(self, op):
        r = self.rec(op["rec"])
        if not r.commits:
            return "skip"
        k = int(op.get("k", 0)) % len(r.commits)
        self.check_commit_view(r, r.commits[k])
        return "ok"

    def check_commit_view(self, r, ci):
        from pathlib import Path

        d = os.path.join(self.tmp, "hist")
        shutil.rmtree(d, ignore_errors=True)
        os.makedirs(d)
        files = []
        for f in ci["files"]:
            src = os.path.join(self.sut, f)
            if not os.path.exists(src):
                raise Violation("C02", "committed-file-removed", f"{f} of commit {ci['n']} is gone", shape="removed")
            shutil.copyfile(src, os.path.join(d, f))
            files.append(Path(os.path.join(d, f)))
            if r.cls == "mf" and os.path.exists(src + "mf.json"):
                shutil.copyfile(src + "mf.json", os.path.join(d, f + "mf.json"))
        cls = self.klass(r)
        self.probe("historic_view_opened")
        try:
            m = cls(files, "r")
        except Exception as e:
            raise Violation("C02", "historic-set-unopenable", f"file set as of commit {ci['n']} no longer opens: {type(e).__name__}: {e}")
        try:
            got, errs = V.dump_tree(m)
            if errs or got != ci["dump"]:
                raise Violation("C02", "historic-view", f"file set as of commit {ci['n']} shows a different state: {errs[:2] or V.diff_dumps(ci['dump'], got)}")
        finally:
            m.close()
            shutil.rmtree(d, ignore_errors=True)

    # -------------------------------------------------------------- data ops

    def op_data(self, op):
        r = self.rec(op.get("rec", 0))
        if not r.is_open:
            return "skip"
        if T.is_into_own_subtree(op):
            return "excluded"
        if T.hdf5_abs_dest_quirk(r.ref, op):
            self.probe("excluded_hdf5_abs_dest_quirk")
            return "excluded"
        n_nodes = 0
        try:
            d0 = V.dump_tree(r.ref)[0]
            n_nodes = len(d0) + sum(len(e[-1]) for e in d0.values())
        except Exception:
            pass
        _steps["n"] = 0
        # a legitimate operation creates each node/attribute of the tree at most a few times
        _steps["limit"] = 4 * n_nodes + 40
        if not r.writable:
            # must be refused, nothing changes
            ok, exc = T.try_apply(r.obj, op)
            if ok and op["op"] == "require_group":
                # not a write if the group exists already (same in h5py on a read-only file)
                try:
                    tgt = r.ref[op["base"]][op["path"]]
                    if hasattr(tgt, "keys"):
                        self.probe("require_group_of_existing_while_readonly")
                        return "noop"
                except Exception:
                    pass
            if ok:
                raise Violation("C03", "write-while-readonly", f"{op['op']} succeeded although no writable container exists (mode {'r' if r.ro else 'r+'})", shape=op["op"])
            return f"refused:{exc}"
        okr, excr = T.try_apply(r.ref, op)
        try:
            oks, excs = T.try_apply(r.obj, op)
        except SimRunaway as e:
            raise Violation("C01", "no-progress", f"{op['op']} {json.dumps(op)}: {e}", shape=self.shape_of(op))
        finally:
            _steps["limit"] = 10**9
        if okr != oks:
            raise Violation(
                "C01",
                "outcome",
                f"{json.dumps(op)}: plain tree {'succeeds' if okr else 'raises ' + str(excr)}, IH5 {'succeeds' if oks else 'raises ' + str(excs)}",
                shape=self.shape_of(op),
            )
        if oks and op["op"] == "require_group":
            # the returned handle must show the node as the plain tree does
            try:
                hs = r.obj[op["base"]].require_group(op["path"])
                hr = r.ref[op["base"]].require_group(op["path"])
                got = (sorted(hs.keys()), sorted(hs.attrs.keys()), hs.name)
                want = (sorted(hr.keys()), sorted(hr.attrs.keys()), hr.name)
            except Exception as e:
                raise Violation("C01", "nav", f"handle returned by require_group({op['path']!r}) unusable: {type(e).__name__}: {e}")
            if got != want:
                raise Violation("C01", "nav", f"group returned by require_group({op['path']!r}) shows children/attrs {got}, plain tree {want}", shape="require_group-handle")
        # was this op touching something first written in an older container?
        if len(r.disk) > 1:
            self.old_touch += 1
        return "ok" if oks else f"raise"

    def op_xcopy(self, op):
        """Copy a node *object* of another open record (or of a plain HDF5 file) into this
        record: IH5 copies by value, the result must equal h5py's cross-file copy."""
        r = self.rec(op["rec"])
        o = self.rec(op["from"])
        if not r.is_open or not o.is_open or r.idx == o.idx:
            return "skip"
        try:
            src_ref = o.ref[op["src"]]
        except Exception:
            return "nosrc"
        try:
            src_sut = o.ref[op["src"]] if op.get("from_plain") else o.obj[op["src"]]
        except Exception as e:
            raise Violation("C01", "outcome", f"lookup of {op['src']!r} raised {type(e).__name__} on IH5 but works on the plain tree")
        d0 = V.dump_tree(o.ref)[0]
        _steps["n"] = 0
        _steps["limit"] = 4 * (len(d0) + sum(len(e[-1]) for e in d0.values())) + 40
        if not r.writable:
            try:
                r.obj.copy(src_sut, op["dst"])
                ok = True
            except Exception:
                ok = False
            finally:
                _steps["limit"] = 10**9
            if ok:
                raise Violation("C03", "write-while-readonly", "copy from another record succeeded although no writable container exists", shape="xcopy")
            return "refused"
        try:
            r.ref.copy(src_ref, op["dst"])
            okr = True
        except Exception:
            okr = False
        try:
            r.obj.copy(src_sut, op["dst"])
            oks, exc = True, None
        except SimRunaway:
            raise
        except Exception as e:
            oks, exc = False, e
        finally:
            _steps["limit"] = 10**9
        self.probe("cross_container_copies")
        if okr != oks:
            raise Violation("C01", "outcome", f"copy of node object {op['src']!r} from {'a plain HDF5 file' if op.get('from_plain') else 'another record'} to {op['dst']!r}: plain tree {'succeeds' if okr else 'raises'}, IH5 {'succeeds' if oks else 'raises ' + type(exc).__name__ + ': ' + str(exc)[:80]}", shape="xcopy")
        self.check_view(r, "C01", "view-eq", extra="after copy from another container")
        self.check_view(o, "C01", "view-eq", extra="source record after copy to another container")
        return "ok" if oks else "raise"

    def shape_of(self, op):
        if op["op"] == "copy":
            src = T.Shadow.join(op["base"], op["src"]).rstrip("/")
            dst = T.Shadow.join(op["base"], op["dst"]).rstrip("/")
            if dst.startswith(src + "/"):
                return "copy-into-own-subtree"
        return op["op"]

    # -------------------------------------------------------------- dispatch

    def step(self, i, op):
        env.settle()
        try:
            return self._step(i, op)
        except Violation as v:
            if v.v["prop"] != "C02":
                # committed files must be intact whatever else went wrong in this operation
                try:
                    self.check_protected(f"op {i} {op['op']}")
                except Violation as v2:
                    v2.also = [v.v]
                    raise v2
            raise

    def _step(self, i, op):
        k = op["op"]
        self.steps += 1
        if k in T.DATA_OPS:
            out = self.op_data(op)
            r = self.rec(op.get("rec", 0))
            if r.is_open and out not in ("skip", "excluded"):
                self.check_view(r)
                self.data_ops = getattr(self, "data_ops", 0) + 1
                if self.data_ops % int(self.cfg.get("nav_every", 3)) == 0:
                    self.check_navigation(r)
                    self.check_absent(r, T.paths_of(op) + self.cfg.get("absent", []))
        elif k == "open":
            out = self.op_open(op)
        elif k == "close":
            out = self.op_close(op)
        elif k == "commit":
            out = self.op_commit(op)
        elif k == "create_patch":
            out = self.op_create_patch(op)
        elif k == "discard":
            out = self.op_discard(op)
        elif k == "merge":
            out = self.op_merge(op)
        elif k == "check_history":
            out = self.op_check_history(op)
        elif k == "open_prefix":
            out = self.op_open_prefix(op)
        elif k == "xcopy":
            out = self.op_xcopy(op)
        elif k == "merge_moved_manifest":
            out = self.op_merge_moved_manifest(op)
        elif k in EXTRA_OPS:
            out = EXTRA_OPS[k](self, op)
        else:
            raise env.HarnessError(f"unknown op {k}")
        self.check_protected(f"op {i} {k}")
        self.save_carry()
        if k in LIFE_OPS:
            self.check_list_records()
            for r in self.recs.values():
                if r.is_open:
                    self.check_view(r, "C03", "lifecycle-view", extra=f"after {k}")
        return out

    def finish(self):
        """End of run: close everything, reopen read-only, check history of all commits."""
        for r in sorted(self.recs.values(), key=lambda x: x.idx):
            if r.is_open:
                self.op_close({"rec": r.idx, "commit": True})
                self.check_protected("final close")
        for r in sorted(self.recs.values(), key=lambda x: x.idx):
            if r.exists:
                n = len(r.disk)
                self.probe("final_chain_len_" + ("1" if n == 1 else "2-4" if n <= 4 else "5-10" if n <= 10 else "11+"))
                try:
                    self.op_open({"rec": r.idx, "mode": "r", "by": "name"})
                except Violation as v:
                    if v.v["prop"] == "C03":
                        # reading the closed record does not show the tree that was written:
                        # this is C01's observation as well (n containers, read by name)
                        v1 = Violation("C01", "reopened-view", f"record of {n} container(s) read back by name after close: {v.v['detail']}", shape=v.v["oracle"])
                        v1.also = [v.v]
                        raise v1
                    raise
                r.obj.close()
                r.obj = None
                self.check_protected("final reopen")
                for ci in r.commits:
                    self.check_commit_view(r, ci)
        self.check_list_records()

    def shutdown(self):
        for r in self.recs.values():
            try:
                if r.obj is not None:
                    r.obj.close(commit=False)
            except Exception:
                pass
            try:
                if r.ref is not None:
                    r.ref.close()
            except Exception:
                pass
        if self.monitor:
            self.sh.detach()


# ------------------------------------------------------------------ engine


class IH5StoreEngine:
    name = "ih5store"

    # ---------------- generation

    def generate(self, prop, tag, tier, mix=None):
        rng = Rng(tag)
        g = rng["gen"]
        profile = {"C01": "overlay", "C02": "immutable", "C03": "restart", "C05": "merge"}.get(prop, "overlay")
        if mix is None:
            mix = profile in ("immutable", "restart", "merge")
        cfg = {"profile": profile, "nav_every": g.choice([1, 3, 3, 5])}
        nrec = 1
        if profile in ("restart", "immutable") and g.random() < 0.6:
            nrec = g.choice([2, 2, 3, 4])
        if profile == "overlay" and g.random() < 0.25:
            nrec = 2  # two records: copies of node objects from one container into another
        cfg["classes"] = {}
        pool = [0, 1, 2, 3, 14, 15, 16, 17]  # foo foo2 foo-bar fo phi mesh run-15 mes
        recs = g.sample(pool, nrec) if nrec > 1 else [g.choice([0, 0, 0, 1, 2, 3, 14, 15, 16])]
        mfprob = {"overlay": 0.25, "immutable": 0.5, "restart": 0.5, "merge": 0.5}[profile]
        for i in recs:
            cfg["classes"][str(i)] = "mf" if g.random() < mfprob else "ih5"
        nops = g.randint(3, 60) if tier == "quick" else g.randint(3, 80)
        if g.random() < 0.3:
            nops = g.randint(3, 12)
        pb = g.choice([0.05, 0.1, 0.15, 0.25, 0.4])
        exotic = g.choice([0.0, 0.1, 0.2, 0.5])
        max_nodes = g.choice([6, 12, 25])
        shadows = {i: T.Shadow() for i in recs}
        vgen = T.ValueGen(rng["values"])
        dgen = {i: T.DataGen(g, exotic=exotic, max_nodes=max_nodes, vgen=vgen) for i in recs}
        for dg in dgen.values():
            dg.copy_variants = profile in ("overlay", "merge")
        # life-cycle shadow (approximate)
        st = {i: {"open": False, "exists": False, "writable": False, "ro": False, "committed_last": False, "n": 0} for i in recs}
        ops = []
        merge_targets = [i for i in range(4, 6)]

        def emit(op):
            ops.append(op)

        def do_open(i, mode=None, by=None, as_=None):
            s = st[i]
            if mode is None:
                if not s["exists"]:
                    mode = g.choice(["w", "a", "x", "w-"] if profile != "restart" else MODES)
                else:
                    mode = g.choice(["r+", "a", "r+", "a", "r"] if profile != "restart" else MODES)
                    if profile != "restart" and g.random() < 0.07:
                        mode = g.choice(["x", "w-"])  # exclusive creation over an existing record must refuse and leave it alone
            op = {"op": "open", "rec": i, "mode": mode, "by": by or ("list" if s["exists"] and g.random() < 0.35 else "name")}
            if g.random() < 0.7:
                op["perm"] = g.randrange(1000)
            if mix and g.random() < 0.2:
                op["as"] = g.choice(["ih5", "mf"])
            if g.random() < 0.12:
                op["manifest_kw"] = True
            if as_:
                op["as"] = as_
            emit(op)
            # shadow update (expected semantics)
            if op["by"] == "list":
                if not s["exists"] or mode in ("w", "x", "w-"):
                    return
            if not s["exists"]:
                if mode in ("r", "r+"):
                    return
                s.update(open=True, exists=True, writable=True, ro=False, committed_last=False, n=1)
                shadows[i] = T.Shadow()
                return
            if mode in ("x", "w-"):
                return
            if mode == "w":
                s.update(open=True, writable=True, ro=False, committed_last=False, n=1)
                shadows[i] = T.Shadow()
                return
            s["open"] = True
            s["ro"] = mode == "r"
            if mode == "r":
                s["writable"] = False
            else:
                if s["committed_last"]:
                    s["n"] += 1
                    s["committed_last"] = False
                s["writable"] = True

        def do_close(i, commit=None):
            s = st[i]
            if commit is None:
                commit = g.random() < (0.8 if profile != "restart" else 0.6)
            co = {"op": "close", "rec": i, "commit": commit}
            if commit and g.random() < 0.3:
                co["via"] = g.choice(["exit", "exit_exc", "exit_exc"])
            emit(co)
            if s["open"]:
                if commit and s["writable"]:
                    s["committed_last"] = True
                s["open"] = False
                s["writable"] = False

        def do_commit(i):
            s = st[i]
            op = {"op": "commit", "rec": i}
            if cfg["classes"][str(i)] == "mf" and g.random() < 0.3:
                op["exts"] = g.choice([{}, {"k": f"v{len(ops)}"}, {"pk": {"n": len(ops)}, "z": [1, 2]}, {"who": f"Jörg Müller {len(ops)}", "中": "λ"}])
            emit(op)
            if s["open"] and s["writable"]:
                s["writable"] = False
                s["committed_last"] = True

        def do_create_patch(i):
            s = st[i]
            emit({"op": "create_patch", "rec": i})
            if s["open"] and not s["ro"] and s["committed_last"]:
                s["writable"] = True
                s["committed_last"] = False
                s["n"] += 1

        def do_discard(i):
            s = st[i]
            emit({"op": "discard", "rec": i})
            if s["open"] and s["writable"] and s["n"] > 1:
                s["n"] -= 1
                s["writable"] = False
                s["committed_last"] = True
                # shadow tree becomes inaccurate; fine (bias only)

        # start: create every record
        for i in recs:
            do_open(i, mode=g.choice(["w", "a", "x", "w-", "w"]), by="name")
        chain = None  # pending replace-then-touch chain
        while len(ops) < nops:
            i = g.choice(recs)
            s = st[i]
            roll = g.random()
            if not s["open"]:
                if profile == "merge" and s["exists"] and s["committed_last"] and cfg["classes"][str(i)] == "mf" and merge_targets and g.random() < 0.25:
                    t = merge_targets.pop(0)
                    cfg["classes"][str(t)] = "mf"
                    emit({"op": "merge_moved_manifest", "rec": i, "target": t})
                    continue
                if profile in ("restart", "immutable") and s["exists"] and s["committed_last"] and s["n"] >= 2 and g.random() < 0.3:
                    emit({"op": "open_prefix", "rec": i, "mode": g.choice(["r", "r", "r+", "a"]), "j": g.randrange(4), "perm": g.randrange(100)})
                    continue
                if profile == "restart" and roll < 0.25:
                    j = g.choice(recs)
                    if not st[j]["open"]:
                        do_open(j, mode=g.choice(MODES))
                        continue
                do_open(i)
                continue
            # open
            if chain and chain["rec"] == i and s["writable"] and g.random() < 0.6:
                self._chain_step(chain, g, dgen[i], shadows[i], emit, lambda: (do_commit(i), do_create_patch(i)))
                if chain["left"] <= 0:
                    chain = None
                continue
            if roll < pb:
                if s["writable"]:
                    do_commit(i)
                    if g.random() < 0.9:
                        do_create_patch(i)
                else:
                    do_create_patch(i)
                continue
            lifeprob = {"overlay": 0.0, "immutable": 0.12, "restart": 0.22, "merge": 0.12}[profile]
            if roll < pb + lifeprob:
                c = g.random()
                if profile == "merge" and c < 0.55:
                    if s["writable"] and g.random() < 0.8:
                        do_commit(i)
                    if g.random() < 0.2:
                        g.choice([do_commit, do_create_patch, do_discard])(i)  # often a refused call
                        if st[i]["writable"]:
                            do_commit(i)
                    if mix and g.random() < 0.25:
                        # merge through the other record class (IH5Record <-> IH5MFRecord)
                        other = "ih5" if cfg["classes"][str(i)] == "mf" else "mf"
                        do_close(i, commit=True)
                        do_open(i, mode=g.choice(["r", "r", "r+"]), by="name", as_=other)
                        if st[i]["writable"] and g.random() < 0.7:
                            do_commit(i)
                    if merge_targets:
                        t = merge_targets.pop(0) if g.random() < 0.85 else 4
                        cfg["classes"][str(t)] = cfg["classes"][str(i)]
                        emit({"op": "merge", "rec": i, "target": t})
                        if t not in recs and g.random() < 0.6 and not s["writable"]:
                            # the merged record lives on: patches on it, merged again later
                            recs.append(t)
                            shadows[t] = shadows[i].clone()
                            dgen[t] = T.DataGen(g, exotic=exotic, max_nodes=max_nodes, vgen=vgen)
                            st[t] = {"open": False, "exists": True, "writable": False, "ro": False, "committed_last": True, "n": 1}
                            merge_targets.append(6 + len(recs))
                    continue
                if c < 0.35:
                    do_close(i)
                    if g.random() < 0.8:
                        do_open(i)
                elif c < 0.55:
                    do_discard(i)
                elif c < 0.7:
                    emit({"op": "check_history", "rec": i, "k": g.randrange(8)})
                elif c < 0.8 and profile in ("immutable", "merge") and merge_targets:
                    if s["writable"] and g.random() < 0.7:
                        do_commit(i)
                    if g.random() < 0.25:
                        # onto a name that is taken (another record, or the record itself as a
                        # "compact in place" attempt): must be refused and must not touch a file
                        emit({"op": "merge", "rec": i, "target": g.choice(recs)})
                        continue
                    t = merge_targets.pop(0)
                    cfg["classes"][str(t)] = cfg["classes"][str(i)]
                    emit({"op": "merge", "rec": i, "target": t})
                elif c < 0.9:
                    # lifecycle calls that are (mostly) refused; then often a restart, which must
                    # find the files as the last successful call left them
                    g.choice([do_commit, do_commit, do_create_patch, do_discard])(i)
                    if g.random() < 0.4:
                        do_close(i, commit=g.random() < 0.5)
                        do_open(i)
                else:
                    do_close(i, commit=False)
                    do_open(i, mode=g.choice(["r", "r+", "a"]))
                continue
            if not s["writable"] and g.random() < 0.85:
                do_create_patch(i)
                if profile in ("restart", "immutable") and g.random() < 0.12:
                    # a patch whose only content is a change of root attributes, then a restart
                    emit({"op": g.choice(["set_attr", "set_attr", "del_attr"]), "rec": i, "node": "/", "key": g.choice(T.ATTR_KEYS), "val": vgen.next()})
                    do_close(i, commit=g.random() < 0.5)
                continue
            if chain is None and g.random() < 0.08 and s["writable"]:
                tgt = dgen[i].existing(shadows[i])
                if tgt:
                    chain = {"rec": i, "path": tgt, "left": g.randint(2, 5), "stage": 0}
                    continue
            if len(recs) > 1 and g.random() < 0.08:
                j = g.choice([x for x in recs if x != i])
                srcp = dgen[j].existing(shadows[j])
                if srcp and st[j]["open"]:
                    dst = dgen[i].fresh_path(shadows[i]) if g.random() < 0.8 else (dgen[i].existing(shadows[i]) or "/zz")
                    xo = {"op": "xcopy", "rec": i, "from": j, "src": srcp, "dst": dst, "from_plain": g.random() < 0.3}
                    if s["writable"]:
                        for q in shadows[j].under(srcp):
                            nq = dst + q[len(srcp):]
                            if nq not in shadows[i].nodes and shadows[i].ensure_parents(nq):
                                shadows[i].nodes[nq] = shadows[j].nodes[q]
                                shadows[i].attrs[nq] = set(shadows[j].attrs.get(q, ()))
                    emit(xo)
                    continue
            op = dgen[i].gen(shadows[i])
            op["rec"] = i
            if op["op"] == "set_ds" and g.random() < 0.04:
                # an unstorable value: the assignment fails on the plain tree without leaving
                # anything behind (no intermediate groups, deleted data stays deleted)
                if g.random() < 0.5 and shadows[i].grave:
                    op["base"], op["path"] = "/", g.choice(shadows[i].grave).lstrip("/") + g.choice(["", "/n/m"])
                op["val"] = ["o"]
                emit(op)
                continue
            if s["writable"]:
                shadows[i].apply(op)
            emit(op)
            if op["op"] in ("set_ds", "create_group") and s["writable"] and g.random() < 0.15:
                # relocate a group that only exists as an intermediate of the path just created
                full = T.Shadow.join(op["base"], op["path"]).strip("/").split("/")
                if len(full) >= 2:
                    k = g.randrange(1, len(full))
                    inter = "/" + "/".join(full[:k])
                    sh = shadows[i]
                    dst = g.choice(sh.grave) if sh.grave and g.random() < 0.6 else dgen[i].fresh_path(sh)
                    if not (dst == inter or dst.startswith(inter + "/")):
                        op2 = {"op": g.choice(["move", "move", "copy"]), "rec": i, "base": "/", "src": inter, "dst": dst}
                        sh.apply(op2)
                        emit(op2)
        cfg["recs"] = recs
        return {"engine": self.name, "prop": prop, "tag": tag, "cfg": cfg, "ops": ops}

    def _chain_step(self, chain, g, dgen, sh, emit, boundary):
        """replace in container k, then only touch in k+1, k+2, ..."""
        p = chain["path"]
        i = chain["rec"]
        if chain["stage"] == 0:
            kind = sh.nodes.get(p)
            emit({"op": "del", "rec": i, "base": "/", "path": p})
            sh.delete(p)
            newkind = g.choice(["g", "g", "d"]) if kind == "g" else g.choice(["g", "g", "d"])
            if newkind == "g":
                op = {"op": "create_group", "rec": i, "base": "/", "path": p}
            else:
                op = {"op": "set_ds", "rec": i, "base": "/", "path": p, "val": dgen.vgen.next()}
            emit(op)
            sh.apply(op)
            chain["stage"] = 1
            chain["kind"] = newkind
            return
        boundary()
        chain["left"] -= 1
        c = g.random()
        if chain["kind"] == "g" and c < 0.5:
            op = {"op": g.choice(["set_ds", "create_group"]), "rec": i, "base": "/", "path": T.Shadow.join(p, dgen.key())}
            if op["op"] == "set_ds":
                op["val"] = dgen.vgen.next()
        elif c < 0.8:
            op = {"op": "set_attr", "rec": i, "node": p, "key": g.choice(T.ATTR_KEYS), "val": dgen.vgen.next()}
        else:
            ks = sorted(sh.attrs.get(p, []))
            op = {"op": "del_attr", "rec": i, "node": p, "key": g.choice(ks) if ks else "k"}
        emit(op)
        sh.apply(op)

    # ---------------- execution

    def execute(self, case, scratch):
        cfg = case.get("cfg", {})
        w = World(scratch, cfg, case.get("tag", "replay"))
        w.focus = case.get("prop")
        viol = []
        log = []
        try:
            try:
                for i, op in enumerate(case["ops"]):
                    out = w.step(i, op)
                    log.append([i, op["op"], out])
                w.finish()
                log.append(["finish"])
            except Violation as e:
                v = dict(e.v)
                v["step"] = len(log)
                viol.append(v)
                for o in getattr(e, "also", []):
                    o = dict(o)
                    o["step"] = len(log)
                    viol.append(o)
            except SimRunaway as e:
                viol.append({"prop": "C01", "oracle": "no-progress", "detail": str(e), "shape": "runaway", "step": len(log)})
            except env.HarnessError:
                raise
            except Exception as e:
                v = env.sut_exception_violation(e, case.get("prop", "C01"), len(log))
                if v is None:
                    raise
                viol.append(v)
        finally:
            w.shutdown()
        for v in w.deferred:
            viol.append(dict(v, step=len(log)))
        kinds = [o["op"] for o in case["ops"]]
        layout = sorted((r.name, r.cls, len(r.disk), r.ncommitted()) for r in w.recs.values())
        sig = hashlib.sha256(json.dumps([kinds, layout]).encode()).hexdigest()[:16]
        nontrivial = w.containers_seen >= 2 and w.old_touch >= 1
        return {
            "violations": viol,
            "faults": w.faults,
            "probes": w.probes,
            "steps": w.steps,
            "log_digest": hashlib.sha256(json.dumps(log).encode()).hexdigest()[:16],
            "sig": sig,
            "nontrivial": bool(nontrivial),
            "containers": w.containers_seen,
        }

    # ---------------- simplification candidates for the minimiser

    def simplify(self, case):
        ops = case["ops"]
        for i, op in enumerate(ops):
            for key in ("perm", "exts"):
                if key in op:
                    c = json.loads(json.dumps(case))
                    del c["ops"][i][key]
                    yield c
            if op.get("by") == "list":
                c = json.loads(json.dumps(case))
                c["ops"][i]["by"] = "name"
                yield c
            if "val" in op and op["val"] != ["i", 1]:
                c = json.loads(json.dumps(case))
                c["ops"][i]["val"] = ["i", 1]
                yield c
        cl = case.get("cfg", {}).get("classes", {})
        for k, v in cl.items():
            if v == "mf":
                c = json.loads(json.dumps(case))
                c["cfg"]["classes"][k] = "ih5"
                yield c
