"""Engine D `container`: MetadorContainer on three drivers in lock-step, with actors.

One logical container is realised three times (h5py.File, IH5Record, IH5MFRecord); the
*owner* issues data/metadata/pack ops, the *lifecycle* actor places IH5 patch boundaries
and reopen points, *restricted* actors keep handles obtained at seeded moments and use
them while the owner mutates the container underneath.

Oracles (per property): C06 raw-tree TOC oracle (no code shared with container/), C07
dict model of attached metadata + brute-force queries, C08 plain reference tree that saw
only the user's data ops + reserved-path probes, C09 lock-step comparison of the three
drivers, C15 restricted actors, C17 packed bytes, C20 embedded schema information.
"""
from __future__ import annotations

import hashlib
import json
import os
import shutil

from simcore import env
from simcore import treeops as T
from simcore import values as V
from simcore.rng import Rng
from sims import vschemas as VS
from sims.ih5store import SimRunaway, Violation, install_step_bound, _steps

DRIVERS = ["h5", "ih5", "mf"]
PREF = "metador_"
META_PREF = "metador_meta_"
TOC = "/metador_container"

OWNER_DATA_OPS = T.DATA_OPS
PACK_LENGTHS = [0, 1, 2, 63, 64, 65, 1023, 1024, 1025, 4096, 65535, 65536]


def is_reserved(path):
    return any(seg.startswith(PREF) for seg in path.split("/"))


def hexbytes(normval):
    """bytes of a normalised dataset value ('s' or 'v' kinds, or Empty)."""
    if normval[0] in ("s", "v"):
        return bytes.fromhex(normval[1])
    if normval[0] == "e":
        return b""
    return None


def canon_json(b):
    return json.dumps(json.loads(b), sort_keys=True)


def text_leaves(x, out=None):
    """All text values inside a parsed object, code point by code point (a JSON round trip
    cannot tell a non-BMP character from the two lone surrogates a careless parser makes of it)."""
    out = [] if out is None else out
    if isinstance(x, str):
        out.append([ord(c) for c in x])
    elif isinstance(x, dict):
        for k in sorted(x, key=str):
            text_leaves(k, out)
            text_leaves(x[k], out)
    elif isinstance(x, (list, tuple, set, frozenset)):
        for y in (sorted(x, key=repr) if isinstance(x, (set, frozenset)) else x):
            text_leaves(y, out)
    elif hasattr(x, "dict") and callable(x.dict):
        text_leaves(x.dict(), out)
    return out


def same_object(cls, stored_json, got):
    """got is the view through cls of the object whose stored JSON is stored_json."""
    exp = cls.parse_obj(json.loads(stored_json))
    return canon_json(exp.json()) == canon_json(got.json()) and sorted(text_leaves(exp.dict())) == sorted(text_leaves(got.dict()))


class Drv:
    def __init__(self, kind, d):
        self.kind = kind
        self.dir = d
        self.raw = None
        self.mc = None
        self.path = os.path.join(d, "cont.h5" if kind == "h5" else "cont")


class CWorld:
    def __init__(self, scratch, cfg, tag):
        env.import_sut()
        import numpy

        if not hasattr(numpy, "bool8"):
            numpy.bool8 = numpy.bool_
        env.install_uuid_seam(container=True)
        install_step_bound()
        import h5py
        from metador_core.container import MetadorContainer
        from metador_core.ih5.manifest import IH5MFRecord
        from metador_core.ih5.record import IH5Record
        from metador_core.plugins import schemas

        VS.register()
        self.h5py = h5py
        self.MC = MetadorContainer
        self.cls = {"h5": h5py.File, "ih5": IH5Record, "mf": IH5MFRecord}
        self.schemas = schemas
        self.scratch = scratch
        self.cfg = cfg
        env.UUIDS.reseed(tag)
        self.drv = []
        for k in cfg.get("drivers", DRIVERS):
            d = os.path.join(scratch, k)
            os.makedirs(d, exist_ok=True)
            self.drv.append(Drv(k, d))
        os.makedirs(os.path.join(scratch, "ref"), exist_ok=True)
        os.makedirs(os.path.join(scratch, "files"), exist_ok=True)
        self.ref = h5py.File(os.path.join(scratch, "ref", "plain.h5"), "w")
        self.meta = {}  # path -> {schema name -> {"name","version","json"}}
        self.focus = None  # property under check (set by execute)
        self.deferred = []
        self.kept_node = None
        self.held = {}  # driver kind -> (path, MetadorMeta handle kept over consecutive meta ops)
        self.packed = {}  # path -> hex of bytes
        self.faults = {}
        self.probes = {}
        self.steps = 0
        self.boundaries = 0
        self.meta_ops = 0
        self.actors = {}
        for dv in self.drv:
            self.open_driver(dv, create=True)

    # ------------------------------------------------------------ helpers

    def count(self, k, n=1):
        self.faults[k] = self.faults.get(k, 0) + n

    def probe(self, k, n=1):
        self.probes[k] = self.probes.get(k, 0) + n

    def open_driver(self, dv, create=False, via="obj"):
        cls = self.cls[dv.kind]
        mode = "w" if create else "r+"
        if via == "args" and not create:
            dv.mc = self.MC(dv.path, mode, driver=cls)
            dv.raw = dv.mc.__wrapped__
        else:
            dv.raw = cls(dv.path, mode)
            dv.mc = self.MC(dv.raw)

    def close_driver(self, dv):
        dv.mc.close()
        dv.mc = None
        dv.raw = None

    def shutdown(self):
        for dv in self.drv:
            try:
                if dv.raw is not None:
                    dv.raw.close()
            except Exception:
                pass
            try:
                if getattr(dv, "donor", None) is not None:
                    dv.donor.close()
            except Exception:
                pass
        try:
            if hasattr(self, "donor_ref"):
                self.donor_ref.close()
        except Exception:
            pass
        try:
            self.ref.close()
        except Exception:
            pass

    # ------------------------------------------------------------ model helpers

    def model_delete(self, p):
        pre = p.rstrip("/") + "/"
        for d in (self.meta, self.packed):
            for q in [q for q in d if q == p or q.startswith(pre)]:
                del d[q]

    def model_copy(self, src, dst, with_meta=True, move=False):
        pre = src.rstrip("/") + "/"
        for d, on in ((self.meta, with_meta), (self.packed, True)):
            add = {}
            for q in list(d):
                if q == src or q.startswith(pre):
                    nq = dst if q == src else dst.rstrip("/") + "/" + q[len(pre):]
                    if on:
                        add[nq] = json.loads(json.dumps(d[q]))
                    if move:
                        del d[q]
            d.update(add)

    def ref_kind(self, p):
        try:
            n = self.ref[p]
        except Exception:
            return None
        return "g" if hasattr(n, "keys") else "d"

    # ------------------------------------------------------------ raw-tree oracle (C06)

    def toc_oracle(self, dv, when):
        self._toc_partial = None
        raw, errs = V.dump_tree(dv.raw)
        if errs:
            raise Violation("C06", "raw-read-error", f"[{dv.kind}] {when}: raw tree unreadable: {errs[:2]}")
        objs = {}  # uuid -> (ep, object path, owner path, owner kind)
        metadirs = set()
        per_dir_names = {}
        links = {}
        schema_recs = {}
        pkg_recs = {}
        for p, ent in raw.items():
            segs = p.split("/")
            if p == "/":
                continue
            if p == TOC or p.startswith(TOC + "/"):
                rel = segs[2:]
                if not rel:
                    continue
                if rel[0] in ("version", "uuid"):
                    continue
                if rel[0] == "links":
                    if len(rel) == 3:
                        if ent[0] != "d":
                            raise Violation("C06", "toc-structure", f"[{dv.kind}] {when}: link {p} is not a dataset")
                        if rel[2] in links:
                            raise Violation("C06", "uuid-not-unique", f"[{dv.kind}] {when}: uuid {rel[2]} listed twice in the TOC")
                        links[rel[2]] = (rel[1], hexbytes(ent[1]).decode("utf-8", "replace"))
                    elif len(rel) > 3:
                        raise Violation("C06", "toc-structure", f"[{dv.kind}] {when}: unexpected entity {p}")
                elif rel[0] == "schemas":
                    if len(rel) == 2:
                        schema_recs.setdefault(rel[1], set())
                    elif len(rel) == 3:
                        schema_recs.setdefault(rel[1], set()).add(rel[2])
                elif rel[0] == "packages":
                    if len(rel) == 2:
                        pkg_recs[rel[1]] = hexbytes(ent[1]) if ent[0] == "d" else None
                else:
                    raise Violation("C06", "toc-structure", f"[{dv.kind}] {when}: unexpected entity {p}")
                continue
            # outside the TOC
            idx = [i for i, s in enumerate(segs) if s.startswith(PREF)]
            if not idx:
                continue  # user node
            i = idx[0]
            if not segs[i].startswith(META_PREF) or len(idx) > 1:
                raise Violation("C06", "stray-internal-node", f"[{dv.kind}] {when}: unexpected internal entity {p}")
            if i == len(segs) - 1:
                # a metadata directory
                if ent[0] != "g":
                    raise Violation("C06", "stray-internal-node", f"[{dv.kind}] {when}: metadata dir {p} is not a group")
                metadirs.add(p)
                continue
            if i != len(segs) - 2:
                raise Violation("C06", "stray-internal-node", f"[{dv.kind}] {when}: unexpected entity {p} inside a metadata dir")
            # a metadata object
            mdir = "/".join(segs[:-1])
            name = segs[-1]
            if ent[0] != "d" or "=" not in name:
                raise Violation("C06", "stray-internal-node", f"[{dv.kind}] {when}: {p} is not a metadata object")
            ep, uuid = name.split("=", 1)
            if uuid in objs:
                raise Violation("C06", "uuid-not-unique", f"[{dv.kind}] {when}: uuid {uuid} used by {objs[uuid][1]} and {p}")
            objs[uuid] = (ep, p, mdir, ent)
            sname = ep.split("__")[0]
            per_dir_names.setdefault(mdir, []).append(sname)
        # the stored objects are known from here on, whatever the remaining C06 oracles say
        self._toc_partial = (raw, objs)
        # owners
        for md in metadirs:
            segs = md.split("/")
            last = segs[-1]
            if last == META_PREF:
                owner = "/".join(segs[:-1]) or "/"
                okind = "g"
            else:
                owner = "/".join(segs[:-1] + [last[len(META_PREF):]])
                okind = "d"
            if owner not in raw or raw[owner][0] != okind:
                raise Violation("C06", "orphan-metadata", f"[{dv.kind}] {when}: metadata dir {md} has no owning {'group' if okind == 'g' else 'dataset'} {owner}", shape="orphan")
            if md not in per_dir_names:
                raise Violation("C06", "empty-bookkeeping-group", f"[{dv.kind}] {when}: empty metadata dir {md}", shape="metadir")
        for md, names in per_dir_names.items():
            if md not in metadirs:
                raise Violation("C06", "stray-internal-node", f"[{dv.kind}] {when}: objects below {md} which is not a metadata dir")
            if len(set(names)) != len(names):
                raise Violation("C06", "two-objects-one-schema", f"[{dv.kind}] {when}: {md} holds several objects of one schema: {sorted(names)}")
        # bijection objects <-> links
        for u, (ep, p, md, ent) in objs.items():
            if u not in links:
                raise Violation("C06", "object-without-link", f"[{dv.kind}] {when}: metadata object {p} has no TOC link", shape="missing-link")
            lep, target = links[u]
            if lep != ep:
                raise Violation("C06", "link-schema-mismatch", f"[{dv.kind}] {when}: link of {u} filed under {lep}, object is {ep}")
            if target != p:
                raise Violation("C06", "link-target-mismatch", f"[{dv.kind}] {when}: TOC link {u} points to {target}, object is at {p}", shape="stale-target")
        for u, (lep, target) in links.items():
            if u not in objs:
                raise Violation("C06", "dangling-link", f"[{dv.kind}] {when}: TOC link {lep}/{u} -> {target} has no metadata object", shape="dangling")
        used = set(ep for ep, _, _, _ in objs.values())
        for ep in used:
            if ep not in schema_recs:
                raise Violation("C06", "schema-record-missing", f"[{dv.kind}] {when}: schema {ep} in use but no record under {TOC}/schemas")
            if schema_recs[ep] != {"jsonschema.json", "compat"}:
                raise Violation("C06", "schema-record-incomplete", f"[{dv.kind}] {when}: schema record {ep} has {sorted(schema_recs[ep])}")
        for ep in schema_recs:
            if ep not in used:
                raise Violation("C06", "schema-record-unused", f"[{dv.kind}] {when}: schema record {ep} but no object uses it", shape="unused-schema")
        # link groups must not be empty
        linkgroups = set(p.split("/")[3] for p in raw if p.startswith(TOC + "/links/") and len(p.split("/")) == 4)
        for lg in linkgroups:
            if lg not in used:
                raise Violation("C06", "empty-bookkeeping-group", f"[{dv.kind}] {when}: empty link group {lg}", shape="linkgroup")
        for grp in ("links", "schemas", "packages"):
            p = f"{TOC}/{grp}"
            if p in raw and not any(q.startswith(p + "/") for q in raw):
                raise Violation("C06", "empty-bookkeeping-group", f"[{dv.kind}] {when}: empty group {p}", shape=grp)
        # packages
        provided = {}
        for pk, data in pkg_recs.items():
            if data is None:
                raise Violation("C06", "toc-structure", f"[{dv.kind}] {when}: package record {pk} is not a dataset")
            info = json.loads(data)
            eps = set()
            for r in info.get("plugins", {}).get("schema", []):
                eps.add(f"{r['name']}__{'.'.join(map(str, r['version']))}")
            provided[pk] = eps
            if not (eps & used):
                raise Violation("C06", "package-record-unused", f"[{dv.kind}] {when}: package record {pk} provides no schema in use", shape="unused-package")
        for ep in used:
            if not any(ep in eps for eps in provided.values()):
                raise Violation("C06", "package-record-missing", f"[{dv.kind}] {when}: no stored package record provides schema {ep}")
        for req in ("version", "uuid"):
            if f"{TOC}/{req}" not in raw:
                raise Violation("C06", "toc-structure", f"[{dv.kind}] {when}: {TOC}/{req} missing")
        return raw, objs

    # ------------------------------------------------------------ index snapshot (C06 incremental == rebuilt)

    def index_snapshot(self, mc):
        toc = mc.metador
        s = toc.schemas
        out = {"schemas": sorted(str(k) for k in s.keys()), "packages": sorted(str(k) for k in s.packages.keys())}
        pp, ch, pr, vs = {}, {}, {}, {}
        for ref in sorted(s.keys()):
            pp[str(ref)] = [str(x) for x in s.parent_path(ref.name, ref.version)]
            ch[str(ref)] = sorted(str(x) for x in s.children(ref.name, ref.version))
            p = s.provider(ref)
            pr[str(ref)] = [p.name, list(p.version)]
        names = sorted(set(r.name for r in s.keys()) | {"verif.base", "core.file"})
        for n in names:
            vs[n] = sorted(str(x) for x in s.versions(n))
        out.update(parent_path=pp, children=ch, provider=pr, versions=vs)
        out["queries"] = {n: sorted(x.name for x in toc.query(n)) for n in ("verif.base",)}
        # uuids the link index knows (reservations of failed attaches excluded)
        out["link_uuids"] = sorted(str(u) for u, v in toc._links._toc_path.items() if v is not None)
        return out

    def check_index_rebuilt(self, dv, when):
        live = self.index_snapshot(dv.mc)
        fresh_mc = self.MC(dv.raw)
        fresh = self.index_snapshot(fresh_mc)
        if live != fresh:
            diff = [k for k in live if live[k] != fresh[k]]
            raise Violation("C06", "index-incremental-vs-rebuilt", f"[{dv.kind}] {when}: index maintained in memory differs from the one rebuilt from disk in {diff}: live={ {k: live[k] for k in diff} } fresh={ {k: fresh[k] for k in diff} }"[:900], shape=",".join(diff))
        return live

    # ------------------------------------------------------------ metadata model checks (C07, C20)

    def plugin_parent_path(self, name, version):
        return self.schemas.parent_path(name, tuple(version))

    def candidates(self, node_meta, sname, sver):
        """Stored objects at a node that satisfy a request for (sname, sver)."""
        out = []
        req = self.schemas.PluginRef(name=sname, version=tuple(sver)) if sver else None
        for nm, o in node_meta.items():
            r = self.schemas.PluginRef(name=o["name"], version=tuple(o["version"]))
            if o["name"] == sname and (req is None or req.supports(r)):
                out.append(o)
                continue
            for a in self.plugin_parent_path(o["name"], o["version"])[:-1]:
                if a.name == sname and (req is None or req.supports(a)):
                    out.append(o)
                    break
        return out

    def check_meta_node(self, dv, p, full=True):
        """All stored objects of node p come back equal (C07) and are described (C20)."""
        want = self.meta.get(p, {})
        try:
            node = dv.mc[p]
            keys = sorted(node.meta.keys())
        except Exception as e:
            raise Violation("C07", "meta-access-raised", f"[{dv.kind}] meta of {p} raised {type(e).__name__}: {e}")
        if keys != sorted(want):
            raise Violation("C07", "meta-keys", f"[{dv.kind}] {p}.meta.keys() = {keys}, attached: {sorted(want)}")
        if len(node.meta) != len(want):
            raise Violation("C07", "meta-keys", f"[{dv.kind}] len({p}.meta) = {len(node.meta)}, attached: {len(want)}")
        for sname, o in want.items():
            ver = tuple(o["version"])
            try:
                got = node.meta.get(sname, ver)
            except Exception as e:
                raise Violation("C07", "meta-get-raised", f"[{dv.kind}] {p}.meta.get({sname!r}, {ver}) raised {type(e).__name__}: {e}")
            if got is None:
                raise Violation("C07", "meta-lost", f"[{dv.kind}] {p}.meta.get({sname!r}, {ver}) is None although an object is attached")
            if canon_json(got.json()) != canon_json(o["json"]):
                raise Violation("C07", "meta-not-equal", f"[{dv.kind}] {p}.meta.get({sname!r}, {ver}) = {got.json()[:200]} differs from stored {o['json'][:200]}")
            if sname not in node.meta or (sname, ver) not in node.meta:
                raise Violation("C07", "meta-contains", f"[{dv.kind}] {sname!r} in {p}.meta is False although attached")
            if not full:
                continue
            # ancestors: valid parent view
            for a in self.plugin_parent_path(sname, ver)[:-1]:
                try:
                    pv = node.meta.get(a.name, a.version)
                except Exception as e:
                    raise Violation("C07", "parent-view-raised", f"[{dv.kind}] {p}.meta.get({a.name!r}, {a.version}) raised {type(e).__name__}: {e}")
                if pv is None:
                    raise Violation("C07", "parent-view-missing", f"[{dv.kind}] {p} carries {sname} but meta.get({a.name!r}, {a.version}) is None")
                cands = self.candidates(want, a.name, a.version)
                cls = self.schemas._get_unsafe(a.name, a.version)
                ok = False
                for c in cands:
                    try:
                        if same_object(cls, c["json"], pv):
                            ok = True
                    except Exception:
                        pass
                if not ok:
                    raise Violation("C07", "parent-view-wrong", f"[{dv.kind}] {p}.meta.get({a.name!r}) = {pv.json()[:200]} is not the parent view of any attached compatible object")

    def check_described(self, dv, raw, objs):
        """C20: embedded JSON Schema validates each object; parent chain/provider as plugin system."""
        import jsonschema

        toc = dv.mc.metador
        cache = {}
        for u, (ep, p, md, ent) in objs.items():
            name, vs = ep.split("__")
            ver = tuple(int(x) for x in vs.split("."))
            ref = self.schemas.PluginRef(name=name, version=ver)
            if ep not in cache:
                try:
                    js = toc.schemas[ref]
                except Exception as e:
                    raise Violation("C20", "embedded-schema-missing", f"[{dv.kind}] schemas[{ep}] raised {type(e).__name__}: {e}")
                rawjs = raw.get(f"{TOC}/schemas/{ep}/jsonschema.json")
                if rawjs is None or json.loads(hexbytes(rawjs[1])) != js:
                    raise Violation("C20", "embedded-schema-mismatch", f"[{dv.kind}] stored jsonschema.json of {ep} is not what the container reports")
                try:
                    plug = json.loads(self.schemas._get_unsafe(name, ver).schema_json())
                except Exception:
                    plug = None
                if plug is not None and plug != js:
                    raise Violation("C20", "embedded-schema-not-the-plugins", f"[{dv.kind}] embedded JSON Schema of {ep} differs from the JSON Schema the plugin system exports for that schema version")
                try:
                    jsonschema.Draft7Validator.check_schema(js)
                    cache[ep] = jsonschema.Draft7Validator(js)
                except Exception as e:
                    raise Violation("C20", "embedded-schema-invalid", f"[{dv.kind}] embedded JSON Schema of {ep} is not a valid draft-07 schema: {e}")
                want_pp = [str(x) for x in self.schemas.parent_path(name, ver)]
                got_pp = [str(x) for x in toc.schemas.parent_path(name, ver)]
                if want_pp != got_pp:
                    raise Violation("C20", "parent-chain", f"[{dv.kind}] container parent_path({ep}) = {got_pp}, plugin system says {want_pp}")
                comp = raw.get(f"{TOC}/schemas/{ep}/compat")
                if comp is None or [f"{r['name']}__{'.'.join(map(str, r['version']))}" for r in json.loads(hexbytes(comp[1]))] != [f"{x.name}__{'.'.join(map(str, x.version))}" for x in self.schemas.parent_path(name, ver)]:
                    raise Violation("C20", "parent-chain-stored", f"[{dv.kind}] stored compat record of {ep} is not the plugin system's parent chain")
                try:
                    prov = toc.schemas.provider(ref)
                except Exception as e:
                    raise Violation("C20", "provider-missing", f"[{dv.kind}] provider({ep}) raised {type(e).__name__}: {e}")
                envp = self.schemas.provider(ref)
                if (prov.name, tuple(prov.version)) != (envp.name, tuple(envp.version)) or sorted(map(str, prov.plugins.get("schema", []))) != sorted(map(str, envp.plugins.get("schema", []))):
                    raise Violation("C20", "provider-mismatch", f"[{dv.kind}] provider({ep}) = {prov.name} {prov.version}, plugin system says {envp.name} {envp.version}")
            data = hexbytes(ent[1])
            errs = list(cache[ep].iter_errors(json.loads(data)))
            if errs:
                raise Violation("C20", "object-invalid-for-embedded-schema", f"[{dv.kind}] stored object {p} does not validate against the embedded JSON Schema: {errs[0].message[:200]}")
            self.probe("objects_validated_against_embedded_schema")

    def brute_query(self, start, sname, sver):
        pre = start.rstrip("/") + "/"
        out = []
        for p, m in self.meta.items():
            if not (p == start or p.startswith(pre) or start == "/"):
                continue
            if self.candidates(m, sname, sver):
                out.append(p)
        return sorted(out)

    def check_query(self, dv, start, sname, sver, via="container"):
        exp = self.brute_query(start, sname, sver) if self.ref_kind(start) else None
        try:
            if via == "container":
                if start == "/":
                    res = dv.mc.metador.query(sname, sver)
                else:
                    res = dv.mc.metador.query(sname, sver, node=dv.mc[start])
            else:
                res = dv.mc[start].metador.query(sname, sver)
            got = sorted(n.name for n in res)
            ok = True
        except Exception as e:
            ok, err = False, e
        if exp is None:
            return "nostart"
        if not ok:
            raise Violation("C07", "query-raised", f"[{dv.kind}] query({sname!r}, {sver}, start={start}) raised {type(err).__name__}: {err}")
        if got != exp:
            raise Violation("C07", "query-result", f"[{dv.kind}] query({sname!r}, {sver}, start={start}, via {via}) = {got}, expected {exp}", shape="extra" if set(got) - set(exp) else "missing")
        return got

    # ------------------------------------------------------------ views (C08, C09)

    def user_dump(self, dv):
        d, errs = V.dump_tree(dv.mc)
        if errs:
            raise Violation("C09", "view-read-error", f"[{dv.kind}] reading the user view raised: {errs[:2]}")
        return d

    def check_views(self, when):
        want, _ = V.dump_tree(self.ref)
        dumps = [self.user_dump(dv) for dv in self.drv]
        for dv, d in zip(self.drv, dumps):
            if d != want:
                others = [o for o in dumps if o != d]
                prop = "C09" if others and all(o == want for o in others) else "C08"
                if dv.kind != "h5" and dumps[0] == want:
                    prop = "C09"
                raise Violation(prop, "user-view", f"[{dv.kind}] {when}: user-visible tree differs from the plain tree that saw the same user operations: {V.diff_dumps(want, d)}")
        return want

    def check_listings(self, dv, want):
        """keys/len/iter/in/visit of every group equal the plain tree (C08 visibility)."""
        kids = {}
        for p in want:
            if p != "/":
                kids.setdefault(T.Shadow.parent(p), []).append(p.rsplit("/", 1)[1])
        for p, ent in want.items():
            if ent[0] != "g":
                continue
            g = dv.mc[p]
            exp = sorted(kids.get(p, []))
            obs = {
                "keys": sorted(g.keys()),
                "iter": sorted(iter(g)),
                "items": sorted(k for k, _ in g.items()),
                "len": len(g),
                "values": len(list(g.values())),
            }
            try:
                rev = sorted(reversed(g))
            except Exception:
                rev = None  # not reversible on this driver: nothing exposed
            if rev is not None and rev != exp:
                raise Violation("C08", "listing-exposes-bookkeeping", f"[{dv.kind}] reversed({p}) yields {rev}, user children: {exp}", shape="reversed")
            vis = []
            g.visit(vis.append)
            sub = sorted(q[len(p.rstrip("/")) + 1 :] for q in want if q != p and (q.startswith(p.rstrip("/") + "/")))
            if obs["keys"] != exp or obs["iter"] != exp or obs["items"] != exp or obs["len"] != len(exp) or obs["values"] != len(exp):
                raise Violation("C08", "listing-exposes-bookkeeping", f"[{dv.kind}] listings of {p}: {obs}, user children: {exp}")
            if sorted(vis) != sub:
                raise Violation("C08", "visit-exposes-bookkeeping", f"[{dv.kind}] visit of {p}: {sorted(vis)}, user nodes: {sub}")
            for k in exp:
                if k not in g:
                    raise Violation("C08", "membership", f"[{dv.kind}] {k!r} in {p} is False")
        # lookups that run through a dataset: absent on the plain tree ("in" False, get None, [] raises)
        for p, ent in sorted(want.items())[: 3 + self.steps % 3]:
            if ent[0] != "d":
                continue
            q = p + "/x"
            try:
                a = q in dv.mc
                b = dv.mc.get(q)
            except Exception as e:
                raise Violation("C09", "lookup-through-dataset", f"[{dv.kind}] membership test / get of {q} (below a dataset) raised {type(e).__name__}: {e}; the plain tree answers False / None", shape="raised")
            if a or b is not None:
                raise Violation("C09", "lookup-through-dataset", f"[{dv.kind}] {q} (below a dataset): in -> {a}, get -> {b!r}", shape="found")
            try:
                dv.mc[q]
                raise Violation("C09", "lookup-through-dataset", f"[{dv.kind}] container[{q!r}] (below a dataset) did not raise", shape="getitem")
            except Violation:
                raise
            except Exception:
                pass

    # ------------------------------------------------------------ applying ops

    def all_apply(self, fn):
        """Apply fn(dv) on every driver -> list of (ok, exc name)."""
        out = []
        for dv in self.drv:
            try:
                fn(dv)
                out.append((True, None))
            except SimRunaway:
                raise
            except Exception as e:
                out.append((False, type(e).__name__ + ": " + str(e)[:80]))
        return out

    def same_outcome(self, res, what):
        oks = [r[0] for r in res]
        if len(set(oks)) > 1:
            desc = ", ".join(f"{dv.kind}: {'ok' if r[0] else r[1]}" for dv, r in zip(self.drv, res))
            raise Violation("C09", "outcome", f"{what}: drivers disagree ({desc})", shape=what.split(" ")[0])
        return oks[0]

    def op_data(self, op):
        if T.is_into_own_subtree(op):
            return "excluded"
        if T.hdf5_abs_dest_quirk(self.ref, op):
            self.probe("excluded_hdf5_abs_dest_quirk")
            return "excluded"
        d0 = V.dump_tree(self.ref)[0]
        _steps["limit"] = 12 * (len(d0) + sum(len(e[-1]) for e in d0.values()) + 3 * sum(len(m) for m in self.meta.values())) + 80
        kwargs = {}
        if op["op"] == "copy" and op.get("without_meta"):
            kwargs["without_meta"] = True
        if op["op"] == "copy" and op.get("bad_kw"):
            # an option the container's copy does not support: must be refused without effect
            kwargs[op["bad_kw"]] = True
            before = [V.dump_tree(dv.raw)[0] for dv in self.drv]

            def fnb(dv):
                g = dv.mc[op["base"]]
                g.copy(op["src"], op["dst"], **kwargs)

            res = self.all_apply(fnb)
            self.probe("copy_with_unsupported_option")
            for dv, r, b in zip(self.drv, res, before):
                after = V.dump_tree(dv.raw)[0]
                if r[0]:
                    raise Violation("C09", "unsupported-option-accepted", f"[{dv.kind}] copy(..., {op['bad_kw']}=True) was accepted")
                if after != b:
                    raise Violation("C06", "refused-op-had-effect", f"[{dv.kind}] copy(..., {op['bad_kw']}=True) was refused but changed the container: {V.diff_dumps(b, after)}", shape="copy-option")
            return "refused"
        okr, excr = T.try_apply(self.ref, dict(op, srcobj=False))

        def fn(dv):
            _steps["n"] = 0
            if kwargs or op.get("srcobj"):
                g = dv.mc[op["base"]]
                src = g[op["src"]] if op.get("srcobj") else op["src"]
                if op.get("how") == "group":
                    g.copy(src, dv.mc[op["dst"]], **kwargs)
                else:
                    g.copy(src, op["dst"], **kwargs)
            else:
                T.apply_data_op(dv.mc, op)

        try:
            res = self.all_apply(fn)
        finally:
            _steps["limit"] = 10**9
        ok = self.same_outcome(res, f"{op['op']} {json.dumps(op)}")
        if ok != okr:
            self.probe("container_outcome_differs_from_plain:" + op["op"])
        # model: follows the plain tree (user data must equal it in any case)
        if okr:
            k = op["op"]
            if k == "del":
                self.model_delete(T.Shadow.join(op["base"], op["path"]).rstrip("/") or "/")
            elif k in ("copy", "move"):
                src = self.norm(T.Shadow.join(op["base"], op["src"]))
                dst = self.norm(T.Shadow.join(op["base"], op["dst"]))
                if op.get("how") == "group":
                    dst = self.norm(dst.rstrip("/") + "/" + src.rsplit("/", 1)[-1])
                self.model_copy(src, dst, with_meta=not op.get("without_meta"), move=(k == "move"))
        return "ok" if ok else "raise"

    @staticmethod
    def norm(p):
        segs = [s for s in p.split("/") if s]
        return "/" + "/".join(segs)

    def exact_class(self, name, ver):
        ref = self.schemas.PluginRef(name=name, version=tuple(ver))
        if ref not in list(self.schemas.keys()):
            return None
        self.schemas._ensure_is_loaded(ref)
        return self.schemas._LOADED_PLUGINS[ref]

    def meta_of(self, dv, p, op):
        """The node's metadata interface: a fresh one, or (op['held']) the handle kept from
        the previous consecutive metadata operation at the same node."""
        if op.get("kept") and dv.kind == "h5" and self.kept_node is not None and self.kept_node[0] == p:
            # an h5py node object follows the node it names through a move
            self.probe("kept_node_object_used_after_move")
            return self.kept_node[1].meta
        if not op.get("held"):
            return dv.mc[p].meta
        h = self.held.get(dv.kind)
        if h is not None and h[0] == p:
            self.probe("held_meta_handle_reused")
            return h[1]
        m = dv.mc[p].meta
        self.held[dv.kind] = (p, m)
        return m

    def op_kept_move(self, op):
        """h5py driver: keep a node object, look at its metadata, move the node through the
        container, then attach through the kept object (it names the moved node). The IH5
        drivers, whose node objects are paths, do the same with a fresh lookup."""
        src = self.norm(op["src"])
        kept = None
        if src != "/" and self.ref_kind(src) is not None:
            for dv in self.drv:
                if dv.kind == "h5":
                    try:
                        kept = dv.mc[src]
                        list(kept.meta.keys())
                    except Exception as e:
                        raise Violation("C08", "kept-node-raised", f"[h5] taking {src} and listing its metadata raised {type(e).__name__}: {e}")
        out = self.op_data({"op": "move", "base": "/", "src": src, "dst": op["dst"]})
        dst = self.norm(op["dst"])
        if out != "ok" or self.ref_kind(dst) is None:
            return "moved-not"
        self.kept_node = (dst, kept) if kept is not None else None
        try:
            return self.op_meta_set({"op": "meta_set", "path": dst, "schema": op["schema"], "version": op["version"], "idx": op["idx"], "how": "name", "as": "dict", "kept": True})
        finally:
            self.kept_node = None

    def held_keys_check(self, p, op):
        """keys()/len()/in of a held metadata interface agree with what is attached (also
        after an operation that went through another, fresh interface to the same node)."""
        want = sorted(self.meta.get(p, {}))
        for dv in self.drv:
            h = self.held.get(dv.kind)
            if h is None or h[0] != p:
                continue
            try:
                got = sorted(k if isinstance(k, str) else repr(k) for k in h[1].keys())
                ln = len(h[1])
            except Exception as e:
                raise Violation("C07", "held-keys-raised", f"[{dv.kind}] keys() of the metadata interface held for {p} raised {type(e).__name__}: {e}")
            if got != want or ln != len(want):
                raise Violation("C07", "held-keys", f"[{dv.kind}] metadata interface held for {p}: keys()={got!r} len={ln}, attached schemas {want}")

    def op_meta_set(self, op):
        """meta[key] = value; key: schema name ('name') or exact class ('class');
        value as dict / schema instance / JSON text ('as')."""
        p = self.norm(op["path"])
        name, ver, idx = op["schema"], tuple(op["version"]), op["idx"]
        how = op.get("how", "name")
        bad = op.get("bad")
        exists = self.ref_kind(p) is not None
        key = name
        if how == "class":
            key = self.exact_class(name, ver)
            if key is None:
                how, key = "name", name
        rref = self.schemas.resolve(name, ver if how == "class" else None)
        scls = self.schemas._get_unsafe(rref.name, rref.version) if rref else None
        sv = tuple(rref.version) if rref else None
        aux = bool(scls is not None and scls.Plugin.auxiliary)
        if scls is not None:
            inst = VS.invalid_instance(name, sv, idx) if bad == "invalid" else VS.instance(name, sv, idx)
        else:
            inst = {"x": 1}
        dup = exists and name in self.meta.get(p, {})
        expect = exists and scls is not None and not aux and not dup and bad != "invalid"
        val = inst
        js_expected = None
        if scls is not None and bad != "invalid":
            if op.get("as") == "obj":
                val = scls.parse_obj(inst)
                if name == "core.dir" and isinstance(inst.get("author"), list):
                    # child-schema instances inside a parent-typed field are kept as they are
                    pcls = self.schemas._get_unsafe("core.person", (0, 1, 0))
                    val.author = [pcls.parse_obj(a) for a in inst["author"]]
                    self.probe("nested_child_schema_instances")
                js_expected = val.json()
            elif op.get("as") == "json":
                val = scls.parse_obj(inst).json()

        def fn(dv):
            self.meta_of(dv, p, op)[key] = val

        res = self.all_apply(fn)
        ok = self.same_outcome(res, f"meta_set {p} {name} {ver}")
        self.meta_ops += 1
        if ok != expect:
            why = "missing node" if not exists else "unregistered" if scls is None else "auxiliary" if aux else "duplicate" if dup else "invalid instance" if bad == "invalid" else "valid"
            raise Violation("C07", "attach-outcome", f"meta[{name!r}] = ... at {p} ({why}) {'succeeded' if ok else 'raised ' + str(res[0][1])}, expected {'success' if expect else 'refusal'}", shape=why)
        if ok:
            js = js_expected or scls.parse_obj(inst).json()
            # what reading the stored bytes with the schema gives (re-parsing normalises nested
            # child-schema values to the declared field type: serialisation round trips are the
            # unclaimed property C12, not judged here)
            js = scls.parse_obj(json.loads(js)).json()
            self.meta.setdefault(p, {})[name] = {"name": name, "version": list(sv), "json": js}
        self.held_keys_check(p, op)
        return "ok" if ok else "raise"

    def op_meta_del(self, op):
        p = self.norm(op["path"])
        name = op["schema"]
        expect = self.ref_kind(p) is not None and name in self.meta.get(p, {})

        def fn(dv):
            del self.meta_of(dv, p, op)[name]

        res = self.all_apply(fn)
        ok = self.same_outcome(res, f"meta_del {p} {name}")
        self.meta_ops += 1
        if ok != expect:
            raise Violation("C07", "detach-outcome", f"del meta[{name!r}] at {p} {'succeeded' if ok else 'raised ' + str(res[0][1])}, attached: {sorted(self.meta.get(p, {}))}")
        if ok:
            del self.meta[p][name]
            if not self.meta[p]:
                del self.meta[p]
        self.held_keys_check(p, op)
        return "ok" if ok else "raise"

    def op_meta_get(self, op):
        p = self.norm(op["path"])
        name, ver = op["schema"], tuple(op["version"]) if op.get("version") else None
        if self.ref_kind(p) is None:
            return "nonode"
        cands = self.candidates(self.meta.get(p, {}), name, ver)
        try:
            cls = self.schemas._get_unsafe(name, ver)
        except KeyError:
            cls = None
        for dv in self.drv:
            try:
                got = self.meta_of(dv, p, op).get(name, ver)
                ok = True
            except Exception as e:
                ok, err = False, e
            if cls is None or getattr(cls.Plugin, "auxiliary", False):
                # unknown or auxiliary schema: nothing can be attached; get gives None or raises
                if ok and got is not None:
                    raise Violation("C07", "get-unknown-schema", f"[{dv.kind}] {p}.meta.get({name!r}, {ver}) returned an object for an unknown/auxiliary schema")
                continue
            if not ok:
                raise Violation("C07", "meta-get-raised", f"[{dv.kind}] {p}.meta.get({name!r}, {ver}) raised {type(err).__name__}: {err}")
            if not cands:
                if got is not None:
                    raise Violation("C07", "get-phantom", f"[{dv.kind}] {p}.meta.get({name!r}, {ver}) = {got.json()[:150]} but nothing compatible is attached")
                continue
            if got is None:
                raise Violation("C07", "meta-lost", f"[{dv.kind}] {p}.meta.get({name!r}, {ver}) is None, compatible attached: {[c['name'] for c in cands]}")
            okc = False
            for c in cands:
                try:
                    if same_object(cls, c["json"], got):
                        okc = True
                except Exception:
                    pass
            if not okc:
                raise Violation("C07", "get-wrong-object", f"[{dv.kind}] {p}.meta.get({name!r}, {ver}) = {got.json()[:150]} is not a view of an attached compatible object")
        return "ok"

    def op_query(self, op):
        start = self.norm(op["start"])
        name, ver = op["schema"], tuple(op["version"]) if op.get("version") else None
        out = None
        for dv in self.drv:
            out = self.check_query(dv, start, name, ver, via=op.get("via", "container"))
        self.probe("queries_checked")
        return "ok" if out != "nostart" else "nostart"

    def op_boundary(self, op):
        for dv in self.drv:
            if dv.kind == "h5":
                dv.raw.flush()
            else:
                dv.raw.commit_patch()
                dv.raw.create_patch()
        self.boundaries += 1
        self.count("boundary")
        return "ok"

    def op_reopen(self, op):
        snaps = {}
        for dv in self.drv:
            snaps[dv.kind] = self.index_snapshot(dv.mc)
        for dv in self.drv:
            self.close_driver(dv)
        for dv in self.drv:
            self.open_driver(dv, via=op.get("via", "obj"))
        self.boundaries += 1
        self.count("reopen")
        for dv in self.drv:
            fresh = self.index_snapshot(dv.mc)
            if fresh != snaps[dv.kind]:
                diff = [k for k in fresh if fresh[k] != snaps[dv.kind][k]]
                v = Violation("C06", "index-after-reopen", f"[{dv.kind}] index reported after reopen differs from the one before closing in {diff}", shape=",".join(diff))
                if self.focus in (None, "C06"):
                    raise v
                if len(self.deferred) < 6 and not any((d["prop"], d["oracle"]) == ("C06", "index-after-reopen") for d in self.deferred):
                    self.deferred.append(dict(v.v))  # passive observation of another property: go on
        # handles of restricted actors die with the container
        for a in self.actors.values():
            a["handles"] = {k: [] for k in a["handles"]}
        return "ok"

    # ------------------------------------------------------------ step

    def step(self, i, op):
        env.settle()
        # the step bound belongs to one data operation: never inherited by the next step
        _steps["limit"] = 10**9
        _steps["n"] = 0
        self.steps += 1
        k = op["op"]
        if k not in ("meta_set", "meta_del", "meta_get"):
            self.held.clear()  # handles are only kept over consecutive metadata operations (held or fresh)
        if k in OWNER_DATA_OPS:
            out = self.op_data(op)
        elif k == "meta_set":
            out = self.op_meta_set(op)
        elif k == "meta_del":
            out = self.op_meta_del(op)
        elif k == "meta_get":
            out = self.op_meta_get(op)
        elif k == "query":
            out = self.op_query(op)
        elif k == "boundary":
            out = self.op_boundary(op)
        elif k == "reopen":
            out = self.op_reopen(op)
        elif k == "kept_move":
            out = self.op_kept_move(op)
        elif k in EXTRA_OPS:
            out = EXTRA_OPS[k](self, op)
        else:
            raise env.HarnessError(f"unknown op {k}")
        self.invariants(f"after op {i} ({k})", light=(k in ("meta_get", "query", "nav", "grant")))
        return out

    def invariants(self, when, light=False, all_drivers=False):
        """Evaluate every oracle family; a failing family does not hide the others
        (each property's check must see its own symptom). Raises the first violation with
        the others attached as .also."""
        found = []

        def run(fn, *a, **k):
            try:
                return fn(*a, **k)
            except Violation as v:
                found.append(v.v)
                return None

        want = run(self.check_views, when)
        if want is None:
            want, _ = V.dump_tree(self.ref)
        heavy = self.drv[self.steps % len(self.drv)]
        for dv in self.drv:
            # the expensive oracles rotate over the drivers (each driver every 3rd step);
            # raw-tree TOC oracle, attached-set and user views run on all drivers every step
            full = (not light) and (all_drivers or dv is heavy)
            res = run(self.toc_oracle, dv, when)
            if res is None and getattr(self, "_toc_partial", None):
                # a TOC (C06) violation must not switch off the oracles of the other properties
                raw, objs = self._toc_partial
            elif res is None:
                try:
                    raw, _ = V.dump_tree(dv.raw)
                except Exception:
                    raw = None
                objs = None
            else:
                raw, objs = res
            if objs is not None:
                run(self.check_attached_set, dv, objs, when)
            if full:
                run(self.check_index_rebuilt, dv, when)
                if objs is not None:
                    run(self.check_described, dv, raw, objs)
                for p in sorted(self.meta):
                    if run(self.check_meta_node, dv, p, True) is None and found and found[-1]["prop"] == "C07":
                        break
                run(self.check_listings, dv, want)
                if raw is not None:
                    run(self.check_packed, dv, raw)
                run(self.check_query_battery, dv)
        if found and self.focus is not None and not any(f["prop"] == self.focus for f in found):
            # observations that belong to other properties only: remember them and let the run
            # go on - ending it here would hide the symptom of the property under check
            for f in found:
                if len(self.deferred) < 6 and not any((d["prop"], d["oracle"]) == (f["prop"], f["oracle"]) for d in self.deferred):
                    self.deferred.append(dict(f))
            self.probe("foreign_observation_deferred")
            return want
        if found and self.focus is not None:
            found.sort(key=lambda f: f["prop"] != self.focus)  # stable: the checked property's symptom first
        if found:
            v = Violation(found[0]["prop"], found[0]["oracle"], found[0]["detail"], found[0].get("shape", ""))
            seen = {(found[0]["prop"], found[0]["oracle"])}
            v.also = []
            for f in found[1:]:
                if (f["prop"], f["oracle"]) not in seen:
                    seen.add((f["prop"], f["oracle"]))
                    v.also.append(f)
            raise v
        return want

    def modelfree_pass(self, when):
        """Oracles that do not consult the harness' model: usable when the model is out of step."""
        found = []
        for dv in self.drv:
            if dv.raw is None or dv.mc is None:
                continue
            for fn in (lambda: self.toc_oracle(dv, when), lambda: self.check_index_rebuilt(dv, when)):
                try:
                    fn()
                except Violation as v:
                    found.append(v.v)
                except Exception:
                    pass
            part = getattr(self, "_toc_partial", None)
            if part:
                try:
                    self.check_described(dv, part[0], part[1])
                except Violation as v:
                    found.append(v.v)
                except Exception:
                    pass
        return found

    def check_attached_set(self, dv, objs, when):
        """the model's objects are exactly the stored objects (C07)"""
        stored = sorted((o[2], o[0]) for o in objs.values())
        exp = []
        for p, m in self.meta.items():
            kind = self.ref_kind(p)
            for nm, o in m.items():
                md = (p.rstrip("/") + "/" + META_PREF) if kind == "g" else (T.Shadow.parent(p).rstrip("/") + "/" + META_PREF + p.rsplit("/", 1)[1])
                exp.append((md, f"{o['name']}__{'.'.join(map(str, o['version']))}"))
        if stored != sorted(exp):
            missing = sorted(set(exp) - set(stored))
            extra = sorted(set(stored) - set(exp))
            raise Violation("C07", "attached-set", f"[{dv.kind}] {when}: stored metadata objects differ from what was attached: missing {missing[:3]} extra {extra[:3]}", shape="missing" if missing else "extra")

    def check_query_battery(self, dv):
        """a few queries per step, compared with the brute-force scan of the model (C07)"""
        names = sorted(set(o["name"] for m in self.meta.values() for o in m.values()))
        cands = []
        for nm in names[:3]:
            cands.append(("/", nm, None))
            for a in self.plugin_parent_path(nm, [o for m in self.meta.values() for o in m.values() if o["name"] == nm][0]["version"])[:-1]:
                cands.append(("/", a.name, None))
                cands.append(("/", a.name, tuple(a.version)))
        starts = sorted(self.meta)[:2]
        for st in starts:
            for nm in names[:2]:
                cands.append((st, nm, None))
                cands.append((st, nm, (9, 0, 0)))
        # a rotating window of at most 4 of the candidate queries per step
        k = self.steps % max(1, len(cands))
        for st, nm, ver in (cands[k:] + cands[:k])[:4]:
            self.check_query(dv, st, nm, ver, via="container" if (len(st) + len(nm)) % 2 else "group")
            self.probe("queries_checked")

    def check_packed(self, dv, raw):
        for p, hx in self.packed.items():
            ent = raw.get(p)
            if ent is None or ent[0] != "d":
                raise Violation("C17", "packed-node-lost", f"[{dv.kind}] embedded file {p} is gone")
            if ent[1][0] == "V":
                # large file: compared by length and digest
                if [ent[1][1], ent[1][2]] != [len(hx) // 2, hashlib.sha256(bytes.fromhex(hx)).hexdigest()]:
                    raise Violation("C17", "packed-bytes", f"[{dv.kind}] bytes of embedded file {p} ({ent[1][1]} bytes) differ from the source ({len(hx) // 2} bytes)")
                self.probe("packed_bytes_verified")
                continue
            got = hexbytes(ent[1])
            if got is None or got.hex() != hx:
                raise Violation("C17", "packed-bytes", f"[{dv.kind}] bytes of embedded file {p} differ from the source ({len(got) if got is not None else None} vs {len(hx) // 2} bytes)")
            try:
                rb = dv.mc[p][()]
                rb = rb.tobytes() if hasattr(rb, "tobytes") else (b"" if isinstance(rb, self.h5py.Empty) else bytes(rb))
            except Exception as e:
                raise Violation("C17", "packed-read-raised", f"[{dv.kind}] reading embedded file {p} raised {type(e).__name__}: {e}")
            if rb.hex() != hx:
                raise Violation("C17", "packed-bytes", f"[{dv.kind}] node[()] of embedded file {p} differs from the source")
            self.probe("packed_bytes_verified")
            # file metadata that travels with the node must keep describing these bytes
            try:
                fm = dv.mc[p].meta.get("core.file", (0, 1, 0))
            except Exception as e:
                raise Violation("C17", "file-metadata-raised", f"[{dv.kind}] reading core.file metadata of {p} raised {type(e).__name__}: {e}")
            if fm is None and "core.file" in self.meta.get(p, {}):
                raise Violation("C17", "file-metadata-lost", f"[{dv.kind}] embedded file {p} has lost its core.file metadata")
            if fm is not None:
                if fm.contentSize != len(rb) or not str(fm.sha256).endswith(hashlib.sha256(rb).hexdigest()):
                    raise Violation("C17", "file-metadata-mismatch", f"[{dv.kind}] core.file metadata at {p} says size {fm.contentSize} / {fm.sha256}, the embedded bytes have size {len(rb)} / sha256 {hashlib.sha256(rb).hexdigest()[:16]}...")
                self.probe("packed_metadata_verified")

    def finish(self):
        # reopen everything once more and compare fresh containers
        self.op_reopen({"op": "reopen"})
        self.invariants("after final reopen", all_drivers=True)


EXTRA_OPS = {}


# ====================================================================== engine


class MetaShadow:
    """Generator-side approximation of attached metadata (bias only)."""

    def __init__(self):
        self.m = {}

    def add(self, p, name):
        self.m.setdefault(p, set()).add(name)

    def rm(self, p, name):
        self.m.get(p, set()).discard(name)

    def drop(self, p):
        pre = p.rstrip("/") + "/"
        for q in [q for q in self.m if q == p or q.startswith(pre)]:
            del self.m[q]

    def pairs(self):
        return sorted((p, n) for p, ns in self.m.items() for n in ns)


def warm():
    """Import the heavy modules once in the parent process (children are forked)."""
    env.import_sut()
    import numpy

    if not hasattr(numpy, "bool8"):
        numpy.bool8 = numpy.bool_
    import jsonschema  # noqa
    import metador_core.container  # noqa
    import metador_core.packer.utils  # noqa
    from metador_core.plugins import schemas

    VS.register()
    for n, v in VS.ATTACHABLE:
        schemas._get_unsafe(n, v)


class ContainerEngine:
    name = "container"

    def __init__(self):
        warm()
    rule = {
        p: "seeded container histories (5-50 ops, <= 15 user nodes, <= 12 metadata objects) executed in lock-step on h5py.File, IH5Record and IH5MFRecord with seeded IH5 patch boundaries and reopen points; op mix biased per property (metadata/query probes, reserved-path probes, pack_file, restricted actors); non-trivial = at least one patch boundary/reopen and at least two metadata operations; distinct = digest of (op-kind sequence, boundaries, final tree signature)"
        for p in ("C06", "C07", "C08", "C09", "C15", "C17", "C20")
    }
    assumptions = {
        p: [
            "histories stay inside the documented IH5 subset (printable ASCII keys without '@', no links, no '.'/empty segments); moving a node into its own subtree is excluded",
            "no injected I/O errors: the container code has no rollback and the properties quantify over fault-free histories",
            "harness schema family registered through register_in_group(violently=True) plus a synthetic package record",
        ]
        for p in ("C06", "C07", "C08", "C09", "C15", "C17", "C20")
    }
    components = {
        "real": ["metador_core.container / ih5 / schema / plugin / packer.utils / harvester (working tree)", "h5py + libhdf5, pydantic, wrapt, python-magic", "kernel VFS (tmpfs)"],
        "stub": ["uuid1 (seeded counter)", "harness-registered schema family 'verif.*' (public registration API, synthetic entry points)"],
        "reference": ["plain h5py.File receiving only the user's data ops", "dict model of attached metadata", "independent raw-tree TOC oracle"],
        "scheduler": ["one seeded PRNG interleaves owner, lifecycle and restricted actors"],
    }

    def generate(self, prop, tag, tier):
        rng = Rng(tag)
        g = rng["gen"]
        nops = g.randint(5, 50)
        if g.random() < 0.25:
            nops = g.randint(3, 12)
        cfg = {"prop": prop}
        sh = T.Shadow()
        ms = MetaShadow()
        vgen = T.ValueGen(rng["values"], kinds=["i", "f", "s", "su", "y", "v", "a", "e", "ao"] + (["a", "a2", "a"] if prop == "C15" else []))
        dgen = T.DataGen(g, exotic=g.choice([0.0, 0.1, 0.3]), max_nodes=g.choice([6, 10, 15]), vgen=vgen, weights={"set_attr": 6, "del_attr": 2, "copy": 12, "move": 10, "del": 16})
        w = {"data": 40, "meta_set": 22, "meta_del": 6, "meta_get": 4, "query": 5, "boundary": 7, "reopen": 3, "pack": 3, "reserved": 3, "actor": 0, "merge": 2, "xcont": 2}
        if prop in ("C17", "C20", "C06"):
            w.update(xcont=6)
        if prop == "C07":
            w.update(meta_get=12, query=14, meta_set=26)
        if prop == "C08":
            w.update(reserved=16)
        if prop == "C17":
            w.update(pack=16, boundary=10, merge=4)
        if prop == "C15":
            w.update(actor=45, meta_set=22)
        if prop == "C09":
            w.update(boundary=12, reopen=6)
            dgen.w.update(set_attr=16, del_attr=10)
        if prop == "C20":
            w.update(meta_set=30)
        if prop == "C06":
            w.update(merge=5)
        kinds = list(w)
        ops = []
        counter = [0]
        nobj = [0]
        actors = ActorGen(g, cfg) if w["actor"] else None

        def node(existing=0.9, kinds_="gd", root=True):
            if g.random() < existing:
                p = dgen.existing(sh, kinds=kinds_, allow_root=root)
                if p:
                    return p
            return dgen.fresh_path(sh)

        while len(ops) < nops:
            k = g.choices(kinds, [w[x] for x in kinds])[0]
            if k == "data":
                if g.random() < (0.12 if prop == "C09" else 0.04):
                    # an attribute that an older container holds is overwritten and deleted
                    # inside one patch (the old value must not come back)
                    cands = sorted(q for q, a in sh.attrs.items() if a and q in sh.nodes)
                    if cands:
                        q = g.choice(cands)
                        key = g.choice(sorted(sh.attrs[q]))
                        chain = [{"op": "boundary"}, {"op": "set_attr", "node": q, "key": key, "val": vgen.next(attr=True)}, {"op": "del_attr", "node": q, "key": key}]
                        if g.random() < 0.3:
                            chain.insert(1, {"op": "del_attr", "node": q, "key": key})
                        for c in chain:
                            if c["op"] != "boundary":
                                sh.apply(c)
                            ops.append(c)
                        continue
                if g.random() < (0.15 if prop in ("C09", "C06") else 0.05):
                    # replace-then-relocate inside one patch: a node that an older container
                    # holds is deleted, created anew and moved away (the old one must stay gone)
                    p0 = dgen.existing(sh)
                    if p0 and p0 != "/":
                        kind0 = sh.nodes[p0]
                        chain = [{"op": "boundary"}, {"op": "del", "base": "/", "path": p0.lstrip("/")}]
                        chain.append({"op": "set_ds", "base": "/", "path": p0.lstrip("/"), "val": vgen.next()} if g.random() < 0.6 else {"op": "create_group", "base": "/", "path": p0.lstrip("/")})
                        chain.append({"op": g.choice(["move", "move", "copy"]), "base": "/", "src": p0, "dst": "/" + dgen.key() + f"_r{len(ops)}"})
                        if g.random() < 0.5:
                            chain.pop(0)
                        for c in chain:
                            if c["op"] != "boundary":
                                sh.apply(c)
                            if c["op"] == "del":
                                ms.drop(p0)
                            ops.append(c)
                        continue
                op = dgen.gen(sh)
                if g.random() < 0.03:
                    # the root group is a group too: copy everything into a new top-level group
                    op = {"op": "copy", "base": "/", "src": "/", "dst": "/" + dgen.key() + f"_all{len(ops)}"}
                if op["op"] in ("copy", "move") and ms.pairs() and g.random() < 0.4 and op.get("how") != "group":
                    # prefer a source that carries metadata at or below it
                    p0, _ = g.choice(ms.pairs())
                    anc = [p0]
                    q = p0
                    while T.Shadow.parent(q) not in ("/", q):
                        q = T.Shadow.parent(q)
                        anc.append(q)
                    src = g.choice(anc)
                    if src in sh.nodes and src != "/":
                        op["base"], op["src"] = "/", src
                        if op["dst"].startswith(src.rstrip("/") + "/") or not op["dst"].startswith("/"):
                            op["dst"] = "/" + dgen.key() + "_cp"
                if op["op"] == "copy" and g.random() < 0.3:
                    op["without_meta"] = True
                if op["op"] == "copy" and g.random() < (0.2 if prop == "C06" else 0.1) and op.get("how") != "group":
                    op["bad_kw"] = g.choice(["shallow", "expand_refs", "recursive"])
                elif op["op"] == "copy" and g.random() < 0.15:
                    op["srcobj"] = True
                if op["op"] == "set_ds" and g.random() < 0.03:
                    op["val"] = ["o"]  # unstorable value: must fail alike on all drivers, without effect
                if not op.get("bad_kw") and op.get("val") != ["o"]:
                    sh.apply(op)
                if op["op"] == "del":
                    ms.drop(T.Shadow.join(op["base"], op["path"]))
                ops.append(op)
                if op["op"] == "move" and op["base"] == "/" and not op.get("bad_kw") and g.random() < 0.35:
                    # something with metadata shows up again at the path a node was just moved away
                    # from (the moved node itself copied back, or another node moved there)
                    srcp, dstp = "/" + op["src"].strip("/"), "/" + op["dst"].strip("/")
                    if any(q == srcp or q.startswith(srcp.rstrip("/") + "/") for q, _ in ms.pairs()) and dstp in sh.nodes and srcp not in sh.nodes:
                        back = {"op": g.choice(["copy", "copy", "move"]), "base": "/", "src": dstp, "dst": srcp}
                        sh.apply(back)
                        ops.append(back)
            elif k == "meta_set" and g.random() < (0.1 if prop in ("C20", "C06") else 0.03) and len(sh.nodes) >= 3:
                # two versions of one schema name in use at two nodes, then every object of one
                # version goes away (the other version's schema, parents and package must stay)
                multi = sorted(set(n for n, _ in VS.ATTACHABLE if sum(1 for m, _ in VS.ATTACHABLE if m == n) >= 2))
                nm = g.choice(multi)
                vers = [v for n, v in VS.ATTACHABLE if n == nm]
                v1, v2 = g.sample(vers, 2)
                cands = [q for q in sh.nodes if (q, nm) not in ms.pairs()]
                if len(cands) >= 2:
                    qa, qb = g.sample(sorted(cands), 2)
                    for q, v in ((qa, v1), (qb, v2)):
                        counter[0] += 1
                        ops.append({"op": "meta_set", "path": q, "schema": nm, "version": list(v), "idx": counter[0], "how": "class", "as": g.choice(["dict", "obj", "json"])})
                        ms.add(q, nm)
                    if g.random() < 0.4:
                        ops.append({"op": "boundary"})
                    ops.append({"op": "meta_del", "path": qa, "schema": nm})
                    ms.rm(qa, nm)
                    if g.random() < 0.5:
                        ops.append({"op": "reopen", "via": g.choice(["obj", "args"])})
            elif k == "meta_set":
                counter[0] += 1
                roll = g.random()
                name, ver = g.choice(VS.ATTACHABLE)
                op = {"op": "meta_set", "path": node(0.95), "schema": name, "version": list(ver), "idx": counter[0], "how": g.choice(["class", "class", "name"]), "as": g.choice(["dict", "obj", "json"])}
                if prop == "C20" and g.random() < 0.2:
                    counter[0] += (3 - counter[0] % 3) % 3
                    op.update(schema="core.dir", version=[0, 1, 0], idx=counter[0], how="class")
                    op["as"] = "obj"
                    roll = 1.0
                if roll < 0.06:
                    op["bad"] = "invalid"
                elif roll < 0.10:
                    op.update(schema="verif.aux", version=[0, 1, 0])
                elif roll < 0.13:
                    op.update(schema="verif.ghost", version=[0, 1, 0])
                elif roll < 0.20 and ms.pairs():
                    p, n = g.choice(ms.pairs())  # duplicate
                    vv = [v for (nn, v) in VS.ATTACHABLE if nn == n]
                    if vv:
                        op.update(path=p, schema=n, version=list(g.choice(vv)))
                elif roll < 0.40 and ms.pairs():
                    # a parent or child schema of something the node already carries
                    p, n = g.choice(ms.pairs())
                    rel = VS.RELATED.get(n)
                    if rel:
                        nn, vv = g.choice(rel)
                        op.update(path=p, schema=nn, version=list(vv))
                if len(ms.pairs()) >= 12 and "bad" not in op:
                    continue
                fresh_attach = "bad" not in op and op["schema"] not in ("verif.aux", "verif.ghost") and op["path"] in sh.nodes and (op["path"], op["schema"]) not in ms.pairs()
                if "bad" not in op and op["schema"] not in ("verif.aux", "verif.ghost") and op["path"] in sh.nodes:
                    ms.add(op["path"], op["schema"])
                if g.random() < (0.25 if prop == "C08" else 0.06) and op["path"] in sh.nodes and op["path"] != "/" and "bad" not in op:
                    # the node is moved while a node object is kept, then more metadata through that object
                    ops.append(op)
                    counter[0] += 1
                    n2, v2 = g.choice(VS.ATTACHABLE)
                    km = {"op": "kept_move", "src": op["path"], "dst": "/" + dgen.key() + f"_k{counter[0]}", "schema": n2, "version": list(v2), "idx": counter[0]}
                    mv = {"op": "move", "base": "/", "src": km["src"], "dst": km["dst"]}
                    sh.apply(mv)
                    ms.drop(km["src"])
                    ops.append(km)
                    continue
                if g.random() < 0.3:
                    # a burst of metadata operations at one node, some through a node.meta
                    # handle that is kept (and may have been taken before the others happen),
                    # some through fresh ones
                    if g.random() < 0.5:
                        ops.append({"op": "meta_get", "path": op["path"], "schema": g.choice(VS.QUERY_NAMES), "version": g.choice(VS.QUERY_VERSIONS), "held": True})
                    op["held"] = g.random() < 0.5
                    ops.append(op)
                    for _ in range(g.randint(1, 3)):
                        c = g.random()
                        counter[0] += 1
                        hd = g.random() < 0.6
                        if c < 0.45:  # attach the same schema again (must be refused)
                            ops.append({**op, "idx": counter[0], "as": g.choice(["dict", "obj", "json"]), "held": hd})
                        elif c < 0.65 and fresh_attach:
                            ops.append({"op": "meta_del", "path": op["path"], "schema": op["schema"], "held": hd})
                            ms.rm(op["path"], op["schema"])
                            fresh_attach = False
                        else:
                            ops.append({"op": "meta_get", "path": op["path"], "schema": g.choice(VS.QUERY_NAMES), "version": g.choice(VS.QUERY_VERSIONS), "held": hd})
                    continue
                ops.append(op)
            elif k == "meta_del":
                if ms.pairs() and g.random() < 0.85:
                    p, n = g.choice(ms.pairs())
                    ms.rm(p, n)
                else:
                    p, n = node(), g.choice(VS.QUERY_NAMES)
                ops.append({"op": "meta_del", "path": p, "schema": n})
            elif k == "meta_get":
                if ms.pairs() and g.random() < 0.7:
                    p, _ = g.choice(ms.pairs())
                else:
                    p = node()
                ops.append({"op": "meta_get", "path": p, "schema": g.choice(VS.QUERY_NAMES), "version": g.choice(VS.QUERY_VERSIONS)})
            elif k == "query":
                start = "/" if g.random() < 0.4 else node(0.95)
                v = g.choice(VS.QUERY_VERSIONS)
                ops.append({"op": "query", "start": start, "schema": g.choice(VS.QUERY_NAMES), "version": list(v) if v else None, "via": g.choice(["container", "group"])})
            elif k == "merge":
                if g.random() < 0.5:
                    ops.append({"op": "merge_check"})
                else:
                    subs = []
                    for _ in range(g.randint(1, 4)):
                        c = g.random()
                        if c < 0.4 and ms.pairs():
                            p0, n0 = g.choice(ms.pairs())
                            subs.append({"op": "meta_del", "path": p0, "schema": n0})
                        elif c < 0.6:
                            n0, v0 = g.choice(VS.ATTACHABLE)
                            subs.append({"op": "meta_set", "path": node(0.95), "schema": n0, "version": list(v0), "idx": 1})
                        else:
                            subs.append(dgen.gen(sh.clone()))
                    ops.append({"op": "ro_window", "ops": subs})
            elif k == "boundary":
                ops.append({"op": "boundary"})
            elif k == "reopen":
                ops.append({"op": "reopen", "via": g.choice(["obj", "args"])})
            elif k == "pack":
                counter[0] += 1
                ln = g.choice(PACK_LENGTHS + [g.randint(0, 300), g.randint(0, 5000)])
                content = g.choice(["rand", "zeros", "nulrich", "high", "text", "trailnul"])
                op = {"op": "pack", "base": g.choice(sh.groups()), "target": dgen.key() + f"_f{counter[0]}" if g.random() < 0.85 else (dgen.existing(sh) or "x").lstrip("/") or "x", "len": ln, "content": content, "seed": counter[0]}
                if prop == "C17" and g.random() < 0.04:
                    op.update(len=g.choice([1048577, 1048576 + 4097, 2 * 1048576 + 3]))  # beyond 1 MiB
                if g.random() < 0.08:
                    op.update(len=1, content="marker")
                if g.random() < 0.2:
                    op["via_symlink"] = True
                echo = None
                if g.random() < 0.15:
                    # embed below a group whose name occurs again further down (/G/k/G/file),
                    # then copy or move /G: relative names of descendants must survive
                    tops = [q for q in sh.groups() if q != "/" and q.count("/") == 1]
                    if tops:
                        echo = g.choice(tops)
                        deep = echo + "/" + dgen.key() + echo
                        cg = {"op": "create_group", "base": "/", "path": deep.lstrip("/")}
                        if sh.apply(cg) is not False and deep in sh.nodes:
                            ops.append(cg)
                            op["base"] = deep
                            if "/" in op["target"]:
                                op["target"] = dgen.key() + f"_f{counter[0]}"
                        else:
                            echo = None
                if "/" not in op["target"]:
                    sh.create(T.Shadow.join(op["base"], op["target"]), "d")
                ops.append(op)
                if echo and g.random() < 0.7:
                    if g.random() < 0.4:
                        ops.append({"op": "boundary"})
                    cp = {"op": g.choice(["copy", "copy", "move"]), "base": "/", "src": echo, "dst": "/" + dgen.key() + f"_e{counter[0]}"}
                    sh.apply(cp)
                    ops.append(cp)
            elif k == "xcont":
                wh = g.randrange(len(DONOR_NODES))
                dstp = node(0.0) if g.random() < 0.7 else "/" + DONOR_NODES[wh]  # sometimes the very path it has in the donor
                if dstp in sh.nodes:
                    continue
                xo = {"op": "xcont_copy", "which": wh, "dst": dstp}
                if sh.ensure_parents(dstp):
                    sh.create(dstp, "g" if DONOR_NODES[wh] in ("dg", "dg/sub") else "d")
                    if DONOR_NODES[wh] == "dg":
                        for sub, kd in (("inner", "d"), ("plain", "d"), ("sub", "g")):
                            sh.create(dstp + "/" + sub, kd)
                    for q in ("", "/inner", "/sub"):
                        ms.add(dstp + q, "x")
                ops.append(xo)
            elif k == "reserved":
                ops.append(gen_reserved(g, sh, ms))
            elif k == "actor":
                ops.append(actors.gen(sh, ms))
        cfg["drivers"] = DRIVERS
        return {"engine": self.name, "prop": prop, "tag": tag, "cfg": cfg, "ops": ops}

    def execute(self, case, scratch):
        w = CWorld(scratch, case.get("cfg", {}), case.get("tag", "replay"))
        w.focus = case.get("prop")
        viol, log = [], []
        try:
            try:
                w.invariants("initially", all_drivers=True)
                for i, op in enumerate(case["ops"]):
                    out = w.step(i, op)
                    log.append([i, op["op"], out])
                w.finish()
                log.append(["finish"])
            except Violation as e:
                v = dict(e.v)
                v["step"] = len(log)
                viol.append(v)
                for o in getattr(e, "also", []):
                    o = dict(o)
                    o["step"] = len(log)
                    viol.append(o)
                if w.focus is not None and not any(x["prop"] == w.focus for x in viol):
                    # the run ends on an observation of another property (e.g. the drivers
                    # disagree about an operation): look once more with the oracles that need no
                    # model (raw-tree TOC, index rebuilt from disk, embedded schema info), so that
                    # what the same operation did to the property under check is not lost
                    for x in w.modelfree_pass(f"after the operation that ended the run (op {len(log)})"):
                        if x["prop"] == w.focus and not any((y["prop"], y["oracle"]) == (x["prop"], x["oracle"]) for y in viol):
                            viol.append(dict(x, step=len(log)))
            except SimRunaway as e:
                viol.append({"prop": "C09", "oracle": "no-progress", "detail": str(e), "shape": "runaway", "step": len(log)})
            except env.HarnessError:
                raise
            except Exception as e:
                v = env.sut_exception_violation(e, case.get("prop", "C01"), len(log))
                if v is None:
                    raise
                viol.append(v)
        finally:
            w.shutdown()
        for d in w.deferred:
            if not any((x["prop"], x["oracle"]) == (d["prop"], d["oracle"]) for x in viol):
                viol.append(dict(d, step=len(log)))
        kinds = [o["op"] for o in case["ops"]]
        try:
            final = sorted(w.meta) + sorted(w.packed)
        except Exception:
            final = []
        sig = hashlib.sha256(json.dumps([kinds, final]).encode()).hexdigest()[:16]
        return {
            "violations": viol,
            "faults": w.faults,
            "probes": w.probes,
            "steps": w.steps,
            "log_digest": hashlib.sha256(json.dumps(log).encode()).hexdigest()[:16],
            "sig": sig,
            "nontrivial": w.boundaries >= 1 and w.meta_ops >= 2,
        }

    def simplify(self, case):
        for i, op in enumerate(case["ops"]):
            for key, val in (("as", "dict"), ("how", "name"), ("via", "obj")):
                if key in op and op[key] != val:
                    c = json.loads(json.dumps(case))
                    c["ops"][i][key] = val
                    yield c
            if op.get("without_meta"):
                c = json.loads(json.dumps(case))
                del c["ops"][i]["without_meta"]
                yield c
            if "val" in op and op["val"] != ["i", 1]:
                c = json.loads(json.dumps(case))
                c["ops"][i]["val"] = ["i", 1]
                yield c
        ds = case.get("cfg", {}).get("drivers", DRIVERS)
        if len(ds) > 1:
            for d in ds:
                c = json.loads(json.dumps(case))
                c["cfg"]["drivers"] = [d]
                yield c


# ====================================================================== pack (C17)


def pack_bytes(op):
    import random

    n, kind, seed = int(op["len"]), op["content"], int(op["seed"])
    r = random.Random(seed * 7919 + n)
    if kind == "marker":
        return b"\x7f"
    if kind == "zeros":
        return b"\x00" * n
    if kind == "nulrich":
        return bytes((0 if i % 3 else 65 + (i + seed) % 26) for i in range(n))
    if kind == "high":
        return bytes(128 + (i * 7 + seed) % 128 for i in range(n))
    if kind == "text":
        return (f"file {seed}\n" * (n // 8 + 1)).encode()[:n]
    if kind == "trailnul":
        k = max(0, n - min(n, 1 + seed % 5))
        return r.randbytes(k) + b"\x00" * (n - k)
    return r.randbytes(n)


def op_pack(w, op):
    import numpy as np
    from metador_core.packer.utils import pack_file

    data = pack_bytes(op)
    base, target = w.norm(op["base"]), op["target"]
    # few distinct source paths: the same path is embedded again with other content
    fpath = os.path.join(w.scratch, "files", f"f{int(op['seed']) % 3}.bin")
    with open(fpath, "wb") as f:
        f.write(data)
    # the simulator owns the file clock: a rewritten source keeps its old timestamps (as after
    # cp -p / rsync -t / a coarse clock), so nothing may be keyed on path + size + mtime
    os.utime(fpath, ns=(1_700_000_000_000_000_000, 1_700_000_000_000_000_000))
    w.probe("pack_source_mtime_pinned")
    if op.get("via_symlink"):
        # the source path is a symbolic link to the file
        lpath = os.path.join(w.scratch, "files", f"l{int(op['seed']) % 3}.lnk")
        if os.path.lexists(lpath):
            os.unlink(lpath)
        os.symlink(os.path.basename(fpath), lpath)
        fpath = lpath
        w.probe("pack_source_is_symlink")
    marker = data == b"\x7f"
    if marker and "/" in target.strip("/"):
        # keep the realignment after the marker probe simple: no intermediate groups
        target = target.strip("/").rsplit("/", 1)[-1]
    wrapped = np.void(data) if len(data) else w.h5py.Empty("b")
    try:
        w.ref[base].create_dataset(target, data=wrapped)
        okr = True
    except Exception:
        okr = False

    def fn(dv):
        pack_file(dv.mc[base], fpath, target=target)

    res = w.all_apply(fn)
    w.count("pack_file")
    full = w.norm(T.Shadow.join(base, target))
    if marker and okr:
        w.probe("deletion_marker_packed")
        for dv, r in zip(w.drv, res):
            if dv.kind == "h5":
                if not r[0]:
                    raise Violation("C17", "marker-h5", f"[h5] packing the single byte 0x7f raised {r[1]} on the plain HDF5 driver")
            else:
                if r[0]:
                    raise Violation("C17", "marker-stored", f"[{dv.kind}] the IH5 deletion marker value was stored instead of being rejected")
                if not r[1].startswith("ValueError"):
                    raise Violation("C17", "marker-not-loud", f"[{dv.kind}] packing the deletion marker value raised {r[1]}, expected ValueError")
        # other spellings of the same value (IH5 drivers only; HDF5 knows no marker)
        for dv in w.drv:
            if dv.kind == "h5":
                continue
            g0 = dv.mc[base]
            t2 = target + "_m"
            spellings = [
                ("0-dim array", lambda: g0.__setitem__(t2, np.array(np.void(b"\x7f")))),
                ("create_dataset(data=marker)", lambda: g0.create_dataset(t2, data=np.void(b"\x7f"))),
                ("one-field record", lambda: g0.__setitem__(t2, np.array((0x7F,), dtype=[("a", "u1")])[()])),
            ]
            h5d = [x for x in w.drv if x.kind == "h5"]
            if h5d:
                # the node as it sits in the plain HDF5 container, copied across containers
                spellings.append(("node copied from a plain HDF5 container", lambda: g0.copy(h5d[0].mc[full], t2)))
            for what, fn2 in spellings:
                try:
                    fn2()
                    stored = True
                except Exception as e:
                    stored, err = False, e
                if stored or t2 in g0:
                    vis = t2 in g0
                    raise Violation("C17", "marker-stored", f"[{dv.kind}] the IH5 deletion marker value given as {what} was accepted instead of being rejected (node visible afterwards: {vis})", shape=what)
                if not isinstance(err, ValueError):
                    raise Violation("C17", "marker-not-loud", f"[{dv.kind}] the deletion marker value given as {what} raised {type(err).__name__}, expected ValueError", shape=what)
            # in-place assignment to an existing one-byte dataset
            g0[t2] = np.void(b"\x01")
            try:
                g0[t2][()] = np.void(b"\x7f")
                stored = True
            except Exception as e:
                stored, err = False, e
            gone = t2 not in g0
            if not gone:
                del g0[t2]
            if stored or gone:
                raise Violation("C17", "marker-stored", f"[{dv.kind}] dataset[()] = <deletion marker value> was accepted (node {'vanished' if gone else 'still listed'})", shape="assign")
            w.probe("deletion_marker_spellings_refused")
        # realign the plain driver and the reference: remove the node again
        del w.ref[full]
        for dv in w.drv:
            if dv.kind == "h5":
                del dv.mc[full]
        return "marker"
    ok = w.same_outcome(res, f"pack {base} {target}")
    if ok != okr:
        raise Violation("C17", "pack-outcome", f"pack_file into {base!r} target {target!r} {'succeeded' if ok else 'raised ' + str(res[0][1])}, plain create_dataset {'succeeds' if okr else 'fails'}")
    if ok:
        w.packed[full] = data.hex()
        metas = []
        for dv in w.drv:
            m = dv.mc[full].meta.get("core.file", (0, 1, 0))
            if m is None:
                raise Violation("C17", "file-metadata-missing", f"[{dv.kind}] packed file {full} has no core.file metadata")
            if m.contentSize != len(data):
                raise Violation("C17", "content-size", f"[{dv.kind}] contentSize {m.contentSize} != {len(data)}")
            if not str(m.sha256).endswith(hashlib.sha256(data).hexdigest()):
                raise Violation("C17", "sha256", f"[{dv.kind}] sha256 {m.sha256} is not the digest of the source bytes")
            metas.append(canon_json(m.json()))
        if len(set(metas)) != 1:
            raise Violation("C09", "pack-metadata", f"file metadata differs between drivers: {metas}")
        w.meta.setdefault(full, {})["core.file"] = {"name": "core.file", "version": [0, 1, 0], "json": metas[0]}
        w.meta_ops += 1
    return "ok" if ok else "raise"


# ====================================================================== reserved paths (C08)

RESERVED_METHODS = ["setitem_softlink", "setitem_hardlink_obj", "get_getclass", "get_getlink", "get_default", "__getitem__", "get", "__contains__", "create_group", "require_group", "create_dataset", "require_dataset", "__setitem__", "__delitem__", "move_src", "move_dst", "copy_src", "copy_dst", "copy_dst_group_name", "pack_target"]
RESERVED_VARIANTS = ["rel", "nested", "nested_deep", "abs_toc", "abs_toc_deep", "existing_meta", "existing_obj", "abs_meta", "toc_links", "rel_meta_of_child"]
KNOWN_PROTOCOL = {"__getitem__", "__setitem__", "__delitem__", "__iter__", "__len__", "__contains__", "keys", "values", "items", "get", "visititems", "visit", "create_dataset", "require_dataset", "create_group", "require_group", "move", "copy", "name", "attrs", "parent", "file"}


def reserved_path(w, dv_raw_paths, variant, user_child, user_ds):
    metas = sorted(p for p in dv_raw_paths if p.rsplit("/", 1)[-1].startswith(META_PREF))
    objs = sorted(p for p in dv_raw_paths if "=" in p.rsplit("/", 1)[-1] and META_PREF in p)
    if variant == "rel":
        return "metador_x"
    if variant == "nested":
        return f"{user_child or 'a'}/metador_meta_y"
    if variant == "nested_deep":
        return f"{user_child or 'a'}/metador_zz/b/c"
    if variant == "abs_toc":
        return TOC
    if variant == "abs_toc_deep":
        return TOC + "/version"
    if variant == "existing_meta":
        return metas[0] if metas else "/" + META_PREF
    if variant == "existing_obj":
        return objs[0] if objs else TOC + "/uuid"
    if variant == "abs_meta":
        return "/" + META_PREF + (user_ds or "q")
    if variant == "toc_links":
        return TOC + "/links"
    if variant == "rel_meta_of_child":
        return META_PREF + (user_ds or "q")
    raise env.HarnessError(variant)


def op_reserved(w, op):
    from metador_core.packer.utils import pack_file
    from metador_core.util.types import H5GroupLike

    unknown = sorted(n for n, v in vars(H5GroupLike).items() if callable(v) and not n.startswith("_abc") and n not in KNOWN_PROTOCOL and n not in ("__init__", "__subclasshook__", "__class_getitem__", "__init_subclass__"))
    for n in unknown:
        w.probe("coverage_gap_protocol_method:" + n)
    base = w.norm(op.get("base", "/"))
    if w.ref_kind(base) != "g":
        base = "/"
    kids = sorted(w.ref[base].keys())
    user_child = next((k for k in kids if hasattr(w.ref[base][k], "keys")), None)
    user_ds = next((k for k in kids if not hasattr(w.ref[base][k], "keys")), None)
    user_any = kids[0] if kids else None
    method = op["method"]
    fpath = os.path.join(w.scratch, "files", "reserved.bin")
    with open(fpath, "wb") as f:
        f.write(b"reserved-probe")
    for dv in w.drv:
        before, _ = V.dump_tree(dv.raw)
        rp = reserved_path(w, before, op["variant"], user_child, user_ds)
        if not is_reserved(rp):
            raise env.HarnessError(rp)
        g = dv.mc if (base == "/" and op.get("on_container")) else dv.mc[base]
        if op.get("as_bytes") and method not in ("setitem_softlink", "setitem_hardlink_obj", "copy_dst_group_name"):
            rp = rp.encode()  # h5py also takes names as bytes
            w.probe("reserved_probe_bytes_path")
        if op.get("via_local") and not (rp.startswith("/") if isinstance(rp, str) else rp.startswith(b"/")):
            g = dv.mc[base].restrict(local_only=True)
            w.probe("reserved_probe_via_local_only")
        result = None
        try:
            if method == "__getitem__":
                result = g[rp]
            elif method == "get":
                result = g.get(rp)
            elif method == "setitem_softlink":
                # a link *value* that targets the reserved namespace (h5py driver would follow it)
                g["zz_alias"] = w.h5py.SoftLink(rp if rp.startswith("/") else (base.rstrip("/") + "/" + rp))
                result = "link stored"
            elif method == "setitem_hardlink_obj":
                g["zz_alias"] = w.h5py.ExternalLink("other.h5", rp)
                result = "link stored"
            elif method == "get_getclass":
                result = g.get(rp, getclass=True)
            elif method == "get_getlink":
                result = g.get(rp, getclass=True, getlink=True)
            elif method == "get_default":
                result = g.get(rp, "fallback")
                if result == "fallback":
                    result = None  # answered 'not there' without revealing anything... still not a rejection
            elif method == "__contains__":
                result = rp in g
            elif method == "create_group":
                result = g.create_group(rp)
            elif method == "require_group":
                result = g.require_group(rp)
            elif method == "create_dataset":
                result = g.create_dataset(rp, data=1)
            elif method == "require_dataset":
                result = g.require_dataset(rp, shape=(), dtype="i8", data=1)
            elif method == "__setitem__":
                g[rp] = 5
                result = "assigned"
            elif method == "__delitem__":
                del g[rp]
                result = "deleted"
            elif method == "move_src":
                g.move(rp, "zz_moved")
                result = "moved"
            elif method == "move_dst":
                if user_any is None:
                    continue
                g.move(user_any, rp)
                result = "moved"
            elif method == "copy_src":
                g.copy(rp, "zz_copied")
                result = "copied"
            elif method == "copy_dst":
                if user_any is None:
                    continue
                g.copy(user_any, rp)
                result = "copied"
            elif method == "copy_dst_group_name":
                if user_any is None:
                    continue
                dsto = {"self": g, "container": dv.mc, "root": dv.mc["/"]}[op.get("dst_obj", "self")]
                nm = {"plain": "metador_named", "meta": META_PREF + (user_ds or "q"), "nested": "metador_container/evil"}[op.get("dst_name", "plain")]
                g.copy(user_any, dsto, name=nm)
                result = "copied"
            elif method == "pack_target":
                pack_file(g, fpath, target=rp)
                result = "packed"
            else:
                raise env.HarnessError(method)
            raised = False
        except env.HarnessError:
            raise
        except SimRunaway:
            raise
        except Exception:
            raised = True
        after, _ = V.dump_tree(dv.raw)
        w.probe("reserved_probe:" + method)
        if after != before:
            raise Violation("C08", "reserved-path-had-effect", f"[{dv.kind}] {method}({rp!r}) from {base} changed the container: {V.diff_dumps(before, after)}", shape=method)
        if not raised:
            if method == "__contains__" and result is False:
                continue
            if method == "get" and result is None:
                # a silent None would be 'not addressable' as well, but the statement demands rejection
                pass
            raise Violation("C08", "reserved-path-accepted", f"[{dv.kind}] {method}({rp!r}) from {base} was not rejected (result {str(result)[:80]})", shape=method)
    return "ok"


def gen_reserved(g, sh, ms):
    op = {"op": "reserved", "method": g.choice(RESERVED_METHODS + ["copy_dst", "move_dst", "copy_src"]), "variant": g.choice(RESERVED_VARIANTS), "base": g.choice(sh.groups()), "on_container": g.random() < 0.4, "via_local": g.random() < 0.25}
    if g.random() < 0.2:
        op["as_bytes"] = True
    if g.random() < 0.12:
        op["method"] = "copy_dst_group_name"
        op.update(dst_obj=g.choice(["self", "container", "root"]), dst_name=g.choice(["plain", "meta", "nested"]))
    return op


# ====================================================================== restricted actors (C15)

FLAG_SETS = [["read_only"], ["skel_only"], ["local_only"], ["read_only", "local_only"], ["read_only", "skel_only"], ["skel_only", "local_only"], ["read_only", "skel_only", "local_only"]]
NAV_PRIMS = ["getitem_deep", "getitem", "get", "child", "values", "items", "visititems", "parent", "query", "restrict", "restrict_self", "root_abs", "require_group_existing", "iter"]
MUTATING = ["d_write_direct", "g_setitem", "g_create_group", "g_require_group", "g_create_dataset", "g_require_dataset", "g_delitem", "g_move", "g_copy", "d_setitem", "d_resize", "a_setitem", "a_delitem", "a_update", "a_pop", "a_clear", "a_setdefault", "a_create", "a_modify", "m_setitem", "m_delitem", "unrestrict"]
READING = ["d_getitem", "d_getitem_slice", "d_get", "a_getitem", "a_get", "a_values", "a_items", "m_getitem", "m_get", "m_values", "m_items", "d_astype", "d_len_fields", "d_asstr", "d_iter", "d_read_direct", "d_nparray", "a_iter_getitem", "a_dict"]
UPWARD = ["parent", "file", "abs_lookup", "abs_get", "abs_contains", "metador_query_root", "parent_parent", "abs_prefix_sibling"]


def is_node(x):
    from metador_core.container.wrappers import MetadorNode

    return isinstance(x, MetadorNode)


def is_raw_node(w, x):
    from metador_core.ih5.overlay import IH5Node

    return isinstance(x, (w.h5py.Group, w.h5py.Dataset, IH5Node)) and not is_node(x)


def flags_of(node):
    return {k.name for k, v in node.acl.items() if v}


def within(root, name):
    return name == root or root == "/" or name.startswith(root.rstrip("/") + "/")


def root_of(h):
    """Current path of the local root of a handle (the owner may have moved it meanwhile)."""
    if h.get("root") is None:
        return None
    obj = h.get("root_obj")
    if obj is not None:
        try:
            return obj.name
        except Exception:
            pass
    return h["root"]


def content_tokens(w):
    dump, _ = V.dump_tree(w.ref)
    tokens = set()
    for p, ent in dump.items():
        vals = list(ent[-1].values()) + ([ent[1]] if ent[0] == "d" else [])
        for v in vals:
            if v[0] not in ("e", "b"):
                tokens.add(json.dumps(v))
    return tokens


def closure_check(w, dv, h, tokens):
    """Systematic: everything one navigation step away from a restricted handle must be a
    wrapped node carrying at least the handle's flags, inside the local root, and (for
    skel_only) must not give out content."""
    node = h["node"]
    fl = flags_of(node)
    if not fl:
        return
    root = root_of(h)
    results = []

    def add(prim, fn):
        try:
            r = fn()
        except Exception:
            return
        if r is None:
            return
        if isinstance(r, (list, tuple)):
            results.extend((prim, x) for x in r if x is not None)
        else:
            results.append((prim, r))

    isgrp = hasattr(node, "keys") and hasattr(node, "create_group")
    if isgrp:
        try:
            names = sorted(node.keys())[:5]
        except Exception:
            names = []
        for nm in names:
            add("getitem", lambda nm=nm: node[nm])
            add("get", lambda nm=nm: node.get(nm))
        add("values", lambda: list(node.values())[:5])
        add("items", lambda: [v for _, v in list(node.items())[:5]])

        def vis():
            seen = []
            node.visititems(lambda n, x: seen.append(x) if len(seen) < 10 else None)
            return seen

        add("visititems", vis)
        add("query", lambda: [n for q in ("verif.base", "core.file", "core.dir", "verif.other") for n in node.metador.query(q)][:10])
    add("parent", lambda: node.parent)
    w.probe("closure_checks")
    for prim, x in results:
        if is_raw_node(w, x):
            raise Violation("C15", "unwrapped-node", f"[{dv.kind}] {prim} from a node restricted {sorted(fl)} ({node.name}) returned an unwrapped {type(x).__name__} ({x.name})", shape=prim)
        if is_node(x):
            got = flags_of(x)
            if not fl <= got:
                raise Violation("C15", "restriction-dropped", f"[{dv.kind}] node {x.name} obtained via {prim} from {node.name} has flags {sorted(got)}, source had {sorted(fl)}", shape=prim)
            if root is not None and not within(root, x.name):
                raise Violation("C15", "local-escape", f"[{dv.kind}] {prim} from local_only node {node.name} (local root {root}) yielded {x.name}", shape=prim)
    if "skel_only" in fl:
        for prim, x in results + [("self", node)]:
            if not is_node(x):
                continue
            reads = []

            def rd(what, fn):
                try:
                    reads.append((what, fn()))
                except Exception:
                    pass

            rd("attrs.values()", lambda: list(x.attrs.values()))
            rd("attrs.items()", lambda: list(x.attrs.items()))
            try:
                akeys = list(x.attrs.keys())[:4]
            except Exception:
                akeys = []
            try:
                mkeys = list(x.meta.keys())[:3]
            except Exception:
                mkeys = []
            for k in akeys:
                rd(f"attrs[{k!r}]", lambda k=k: x.attrs[k])
                rd(f"attrs.get({k!r})", lambda k=k: x.attrs.get(k))
            if not (hasattr(x, "keys") and hasattr(x, "create_group")):
                rd("[()]", lambda: x[()])
                # the other ways Python offers to look into a sequence-like object: any answer
                # (also "False") is information about the contents
                for what, fn in (("reversed()", lambda: list(reversed(x))), ("iter()", lambda: list(x)), ("bytes()", lambda: bytes(x)), ("contains", lambda: 1 in x), ("[0]", lambda: x[0]), ("[...]", lambda: x[...])):
                    try:
                        fn()
                    except Exception:
                        continue
                    raise Violation("C15", "skel-only-leak", f"[{dv.kind}] {what} on dataset {x.name} (reached via {prim} from skel_only node {node.name}) answered instead of being refused", shape=what)
            for k in mkeys:
                rd(f"meta[{k!r}]", lambda k=k: x.meta[k])
                rd(f"meta.get({k!r})", lambda k=k: x.meta.get(k))
                # ... and through the parent schemas of what is attached
                try:
                    o = w.meta.get(w.norm(x.name), {}).get(k)
                    parents = [a.name for a in w.plugin_parent_path(o["name"], o["version"])[:-1]] if o else []
                except Exception:
                    parents = []
                for pn in parents:
                    rd(f"meta.get({pn!r})", lambda pn=pn: x.meta.get(pn))
                    rd(f"meta[{pn!r}]", lambda pn=pn: x.meta[pn])
            rd("meta.values()", lambda: list(x.meta.values()))
            for what, val in reads:
                l = leaks(w, val, tokens)
                if l:
                    raise Violation("C15", "skel-only-leak", f"[{dv.kind}] {what} of {x.name} (reached via {prim} from skel_only node {node.name}) returned {l}", shape=what.split("(")[0].split("[")[0])


def op_grant(w, op):
    a = w.actors.setdefault(op["actor"], {"handles": {dv.kind: [] for dv in w.drv}})
    p = w.norm(op["path"])
    flags = {f: True for f in op["flags"]}
    ok = True
    for dv in w.drv:
        try:
            if p == "/" and op.get("container", True):
                node = w.MC(dv.raw).restrict(**flags)
            else:
                node = dv.mc[p].restrict(**flags)
            a["handles"].setdefault(dv.kind, []).append({"node": node, "flags": set(op["flags"]), "root": p if "local_only" in op["flags"] else None, "root_obj": node if "local_only" in op["flags"] else None, "path": p})
        except Exception:
            ok = False
            a["handles"].setdefault(dv.kind, []).append(None)
    w.count("actor_grant")
    tokens = content_tokens(w)
    for dv in w.drv:
        hs = a["handles"].get(dv.kind, [])
        if hs and hs[-1] is not None:
            closure_check(w, dv, hs[-1], tokens)
    return "ok" if ok else "nonode"


def _handle(w, dv, op):
    a = w.actors.get(op["actor"])
    if not a:
        return None
    hs = a["handles"].get(dv.kind, [])
    if not hs:
        return None
    h = hs[-1] if int(op["h"]) < 0 else hs[int(op["h"]) % len(hs)]
    if h is not None:
        # a handle whose node was deleted / replaced by another kind of node by the owner is
        # stale: what it does is undefined (IH5 handles are path based), nothing is judged
        kind = h.get("kind")
        if kind is None:
            n = h["node"]
            kind = h["kind"] = "g" if (hasattr(n, "keys") and hasattr(n, "create_group")) else "d"
        if w.ref_kind(h["path"]) != kind:
            w.probe("stale_handle_skipped")
            return None
    return h


def op_nav(w, op):
    """Derive a new handle through a navigation primitive; acl must be inherited."""
    prim, arg = op["prim"], op.get("arg", 0)
    out = "ok"
    for dv in w.drv:
        h = _handle(w, dv, op)
        a = w.actors.get(op["actor"])
        if h is None:
            if a:
                a["handles"][dv.kind].append(None)
            out = "nohandle"
            continue
        node = h["node"]
        src_flags = flags_of(node)
        res = None
        root = root_of(h)
        root_obj = h.get("root_obj")
        try:
            if prim in ("getitem", "get", "child", "values", "items", "iter", "visititems", "require_group_existing"):
                names = sorted(node.keys())
                if prim == "visititems":
                    seen = []
                    node.visititems(lambda n, x: seen.append(x))
                    seen.sort(key=lambda x: x.name)
                    res = seen[arg % len(seen)] if seen else None
                elif not names:
                    res = None
                else:
                    nm = names[arg % len(names)]
                    if prim == "getitem":
                        res = node[nm]
                    elif prim == "get":
                        res = node.get(nm)
                    elif prim == "child":
                        res = node[node.name.rstrip("/") + "/" + nm] if "local_only" not in src_flags else node[nm]
                    elif prim == "values":
                        res = sorted(node.values(), key=lambda x: x.name)[arg % len(names)]
                    elif prim == "items":
                        res = dict(node.items())[nm]
                    elif prim == "iter":
                        res = node[list(iter(node))[arg % len(names)]]
                    elif prim == "require_group_existing":
                        grp = [n for n in names if is_node(node[n]) and hasattr(node[n], "keys")]
                        res = node.require_group(grp[arg % len(grp)]) if grp and "read_only" not in src_flags else None
            elif prim == "getitem_deep":
                # a descendant two or more levels down, reached in one lookup
                deep = []
                node.visititems(lambda n, x: deep.append(n) if n.count("/") >= 1 else None)
                deep.sort()
                res = node[deep[arg % len(deep)]] if deep else None
            elif prim == "parent":
                res = node.parent
            elif prim == "query":
                rs = sorted(node.metador.query(VS.QUERY_NAMES[arg % len(VS.QUERY_NAMES)]), key=lambda x: x.name)
                res = rs[arg % len(rs)] if rs else None
            elif prim == "restrict":
                fl = FLAG_SETS[arg % len(FLAG_SETS)]
                res = node[sorted(node.keys())[0]] if hasattr(node, "keys") and sorted(node.keys()) else None
                if res is not None:
                    res = res.restrict(**{f: True for f in fl})
                    if "local_only" in fl:
                        # explicitly restricted: the node becomes its own local root
                        root = res.name
                        root_obj = res
            elif prim == "restrict_self":
                # restrict the very wrapper object that was (possibly) navigated from before
                fl = FLAG_SETS[arg % len(FLAG_SETS)]
                missing = [f for f in ("read_only", "skel_only", "local_only") if f not in src_flags]
                if missing and arg % 2:
                    fl = [missing[(arg // 2) % len(missing)]]  # a flag the node does not carry yet
                node.restrict(**{f: True for f in fl})
                h["flags"] = flags_of(node)
                if "local_only" in fl:
                    h["root"] = node.name
                    h["root_obj"] = node
                closure_check(w, dv, h, content_tokens(w))
                res = None
            elif prim == "root_abs":
                res = node["/"]
            else:
                raise env.HarnessError(prim)
        except (env.HarnessError, Violation):
            raise
        except Exception:
            res = None
        w.probe("nav:" + prim)
        if res is None:
            if prim != "restrict_self":
                a["handles"][dv.kind].append(None)
            continue
        if is_raw_node(w, res):
            raise Violation("C15", "unwrapped-node", f"[{dv.kind}] {prim} from a node restricted {sorted(src_flags)} returned an unwrapped {type(res).__name__} ({res.name})", shape=prim)
        if not is_node(res):
            a["handles"][dv.kind].append(None)
            continue
        got = flags_of(res)
        if not src_flags <= got:
            raise Violation("C15", "restriction-dropped", f"[{dv.kind}] node {res.name} obtained via {prim} from {node.name} has flags {sorted(got)}, source had {sorted(src_flags)}", shape=prim)
        if root is not None and not within(root, res.name):
            raise Violation("C15", "local-escape", f"[{dv.kind}] {prim} from local_only node (local root {root}) yielded {res.name}", shape=prim)
        nh = {"node": res, "flags": got, "root": root, "root_obj": root_obj, "path": res.name}
        a["handles"][dv.kind].append(nh)
        if prim == "restrict":
            closure_check(w, dv, nh, content_tokens(w))
    # keep handle lists bounded
    a = w.actors.get(op["actor"])
    if a:
        for k in a["handles"]:
            if len(a["handles"][k]) > 24:
                a["handles"][k] = a["handles"][k][-24:]
    return out


def leaks(w, res, tokens):
    """Does a value returned through a skel_only chain carry content?"""
    import numpy as np
    from metador_core.container.interface import StoredMetadata
    from metador_core.schema import MetadataSchema

    if res is None or isinstance(res, (bool,)):
        return None
    if isinstance(res, MetadataSchema) and not type(res).__name__.endswith("PluginRef"):
        return "a metadata object"
    if isinstance(res, StoredMetadata):
        return "a StoredMetadata record (gives access to the raw object node)"
    if is_raw_node(w, res):
        return f"an unwrapped {type(res).__name__}"
    if isinstance(res, (bytes, str, int, float, np.generic, np.ndarray, w.h5py.Empty)):
        n = json.dumps(V.norm(res))
        if n in tokens:
            return f"a stored value {n[:60]}"
        return None
    if isinstance(res, dict):
        res = list(res.items())
    if isinstance(res, (list, tuple)) or hasattr(res, "__iter__"):
        try:
            for x in list(res)[:50]:
                l = leaks(w, x, tokens)
                if l:
                    return l
        except Exception:
            return None
    return None


def op_attempt(w, op):
    kind = op["kind"]
    if kind.startswith("sweep_"):
        # every operation of one class through the same handle (systematic, not sampled)
        kinds = {"sweep_M": MUTATING, "sweep_R": READING, "sweep_U": UPWARD}[kind]
        out = "ok"
        for k in kinds:
            o = dict(op, kind=k)
            r = _op_attempt(w, o)
            if r != "ok":
                out = r
        w.probe("attempt_sweeps")
        return out
    return _op_attempt(w, op)


def _op_attempt(w, op):
    kind, arg = op["kind"], op.get("arg", 0)
    # unique content tokens of the container (dataset and attribute values, except bools/Empty)
    tokens = content_tokens(w)
    dump, _ = V.dump_tree(w.ref)
    if kind == "closure":
        for dv in w.drv:
            h = _handle(w, dv, op)
            if h is not None:
                closure_check(w, dv, h, tokens)
        return "ok"
    cls_other = w.schemas._get_unsafe("verif.other", (0, 1, 0))
    out = "ok"
    for dv in w.drv:
        h = _handle(w, dv, op)
        if h is None:
            out = "nohandle"
            continue
        node = h["node"]
        fl = flags_of(node)
        isgrp = hasattr(node, "keys") and hasattr(node, "create_group")
        before = None
        res = None
        raised = False
        group = "M" if kind in MUTATING else "R" if kind in READING else "U"
        if group == "M" and "read_only" not in fl:
            out = "skipped"
            continue  # a legitimate mutation would take the drivers out of the owner's script
        if group == "M":
            before, _ = V.dump_tree(dv.raw)
        names = []
        try:
            names = sorted(node.keys()) if isgrp else []
        except Exception:
            pass
        nm = names[arg % len(names)] if names else "x"
        if names and kind in ("g_delitem", "g_move", "g_copy"):
            # prefer a victim that carries metadata (at or below it)
            base = node.name.rstrip("/")
            withmeta = [n for n in names if any(q == f"{base}/{n}" or q.startswith(f"{base}/{n}/") for q in w.meta)]
            if withmeta:
                nm = withmeta[arg % len(withmeta)]
        try:
            if kind == "g_setitem":
                node["zz_new"] = 1
            elif kind == "g_create_group":
                node.create_group("zz_grp")
            elif kind == "g_require_group":
                node.require_group("zz_req")
            elif kind == "g_create_dataset":
                node.create_dataset("zz_ds", data=2)
            elif kind == "g_require_dataset":
                node.require_dataset("zz_rds", shape=(), dtype="i8", data=2)
            elif kind == "g_delitem":
                del node[nm]
            elif kind == "g_move":
                node.move(nm, "zz_mv")
            elif kind == "g_copy":
                node.copy(nm, "zz_cp")
            elif kind == "d_setitem":
                node[()] = 3
            elif kind == "d_write_direct":
                import numpy as _np

                if isgrp:
                    raise TypeError("not a dataset")
                node.write_direct(_np.zeros(node.shape, dtype=node.dtype))
            elif kind == "d_resize":
                node.resize((2,))
            elif kind == "a_setitem":
                node.attrs["zz"] = 1
            elif kind == "a_delitem":
                ks = sorted(node.attrs.keys())
                del node.attrs[ks[arg % len(ks)] if ks else "zz"]
            elif kind == "a_update":
                node.attrs.update({"zz": 1})
            elif kind == "a_pop":
                ks = sorted(node.attrs.keys())
                node.attrs.pop(ks[arg % len(ks)] if ks else "zz")
            elif kind == "a_clear":
                if not sorted(node.attrs.keys()):
                    raise KeyError("nothing to clear")
                node.attrs.clear()
            elif kind == "a_setdefault":
                node.attrs.setdefault("zz", 1)
            elif kind == "a_create":
                node.attrs.create("zz", 1)
            elif kind == "a_modify":
                ks = sorted(node.attrs.keys())
                node.attrs.modify(ks[arg % len(ks)] if ks else "zz", 1)
            elif kind == "m_setitem":
                node.meta[cls_other] = {"flag": True}
            elif kind == "m_delitem":
                ks = sorted(node.meta.keys())
                del node.meta[ks[arg % len(ks)] if ks else "verif.other"]
            elif kind == "unrestrict":
                node.restrict(read_only=False, skel_only=False, local_only=False)
                if flags_of(node) != fl:
                    raise Violation("C15", "restriction-removed", f"[{dv.kind}] restrict(flag=False) changed flags of {node.name} from {sorted(fl)} to {sorted(flags_of(node))}")
                raised = True  # nothing to undo
            elif kind == "d_getitem":
                res = node[()]
            elif kind == "d_getitem_slice":
                res = node[...]
            elif kind == "d_get":
                res = node.get(nm) if isgrp else node[()]
                if is_node(res):
                    res = None
            elif kind == "a_getitem":
                ks = sorted(node.attrs.keys())
                res = node.attrs[ks[arg % len(ks)]] if ks else None
            elif kind == "a_get":
                ks = sorted(node.attrs.keys())
                res = node.attrs.get(ks[arg % len(ks)]) if ks else None
            elif kind == "a_values":
                res = list(node.attrs.values())
            elif kind == "a_items":
                res = list(node.attrs.items())
            elif kind == "m_getitem":
                ks = sorted(node.meta.keys())
                res = node.meta[ks[arg % len(ks)]] if ks else None
            elif kind == "m_get":
                ks = sorted(node.meta.keys())
                res = node.meta.get(ks[arg % len(ks)]) if ks else None
            elif kind == "m_values":
                res = list(node.meta.values())
            elif kind == "m_items":
                res = list(node.meta.items())
            elif kind == "d_asstr":
                res = node.asstr()[()] if not isgrp else None
            elif kind == "d_iter":
                res = list(iter(node))[:5] if not isgrp else None
            elif kind == "d_read_direct":
                import numpy as _np

                if not isgrp:
                    buf = _np.zeros(node.shape, dtype=node.dtype)
                    node.read_direct(buf)
                    res = buf if buf.shape else buf[()]
            elif kind == "d_nparray":
                import numpy as _np

                res = _np.array(node) if not isgrp else None
                if res is not None and not res.shape:
                    res = res[()]
            elif kind == "a_iter_getitem":
                res = [node.attrs[k] for k in list(iter(node.attrs))[:4]]
            elif kind == "a_dict":
                res = dict(node.attrs)
            elif kind == "d_astype":
                res = node.astype("i8")[()] if not isgrp else None
            elif kind == "d_len_fields":
                res = node.fields("x")[()] if not isgrp else None
            elif kind == "parent":
                res = node.parent
            elif kind == "parent_parent":
                res = node.parent.parent
            elif kind == "file":
                res = node.file
            elif kind == "abs_lookup":
                res = node["/"]
            elif kind == "abs_get":
                res = node.get("/")
            elif kind == "abs_contains":
                res = ("/" + (sorted(w.ref.keys())[0] if len(w.ref.keys()) else "x")) in node
                res = None if res is False else "absolute path answered True"
            elif kind == "abs_prefix_sibling":
                # absolute path of a node outside the local root whose path starts with the
                # same characters (/run vs /run2, /run_old/x)
                rt = root_of(h)
                cands = sorted(q for q in dump if rt and rt != "/" and q.startswith(rt) and not within(rt, q))
                if cands:
                    tgt = cands[arg % len(cands)]
                    res = [node[tgt]] if isgrp else None
                    if isgrp:
                        res.append(node.get(tgt))
                        res = [r for r in res if r is not None]
            elif kind == "metador_query_root":
                res = list(node.metador.query(VS.QUERY_NAMES[arg % len(VS.QUERY_NAMES)]))
            else:
                raise env.HarnessError(kind)
        except Violation:
            raise
        except env.HarnessError:
            raise
        except Exception:
            raised = True
        w.probe(f"attempt:{group}:{'+'.join(sorted(fl)) or 'none'}")
        if group == "M" and kind != "unrestrict":
            after, _ = V.dump_tree(dv.raw)
            if after != before:
                raise Violation("C15", "mutation-through-read-only", f"[{dv.kind}] {kind} through a read_only node ({node.name}, flags {sorted(fl)}) changed the container: {V.diff_dumps(before, after)}", shape=kind)
            if not raised:
                raise Violation("C15", "mutation-not-refused", f"[{dv.kind}] {kind} through a read_only node ({node.name}) did not raise", shape=kind)
        if group == "R" and "skel_only" in fl and not raised:
            l = leaks(w, res, tokens)
            if l:
                raise Violation("C15", "skel-only-leak", f"[{dv.kind}] {kind} through a skel_only node ({node.name}) returned {l}", shape=kind)
        if group == "U" and root_of(h) is not None and not raised and res is not None:
            items = res if isinstance(res, list) else [res]
            for x in items:
                if is_raw_node(w, x):
                    raise Violation("C15", "unwrapped-node", f"[{dv.kind}] {kind} returned an unwrapped node")
                if is_node(x) and not within(root_of(h), x.name):
                    raise Violation("C15", "local-escape", f"[{dv.kind}] {kind} from local_only node {node.name} (local root {root_of(h)}) yielded {x.name}", shape=kind)
                if isinstance(x, str):
                    raise Violation("C15", "local-escape", f"[{dv.kind}] {kind} from local_only node {node.name}: {x}", shape=kind)
        if group == "U" and not raised and res is not None:
            items = res if isinstance(res, list) else [res]
            for x in items:
                if kind == "file":
                    # '.file' is not in the statement's enumeration of navigation; observed only
                    if is_node(x) and not fl <= flags_of(x):
                        w.probe("file_on_restricted_node_gives_less_restricted_container")
                    continue
                if is_node(x) and not fl <= flags_of(x):
                    raise Violation("C15", "restriction-dropped", f"[{dv.kind}] {kind} from {node.name} ({sorted(fl)}) yielded {x.name} with flags {sorted(flags_of(x))}", shape=kind)
    return out


class ActorGen:
    def __init__(self, g, cfg):
        self.g = g
        self.n = {"A": 0, "B": 0}

    def gen(self, sh, ms):
        g = self.g
        actor = g.choice(["A", "B"])
        roll = g.random()
        plan = getattr(self, "plan", [])
        if plan:
            return plan.pop(0)
        if self.n[actor] == 0 or roll < 0.15:
            self.n[actor] += 1
            # follow a grant with the classic misuse patterns: restrict a child / the node
            # itself further, then look around and try everything once
            self.plan = []
            if g.random() < 0.6:
                first = g.choice(["restrict", "restrict_self", "getitem", "visititems", "getitem_deep", "query"])
                self.plan.append({"op": "nav", "actor": actor, "h": -1, "prim": first, "arg": g.randrange(50)})
                if first in ("getitem", "visititems", "getitem_deep", "query") and g.random() < 0.6:
                    # restrict the node just obtained further, then look around from it
                    self.plan.append({"op": "nav", "actor": actor, "h": -1, "prim": "restrict_self", "arg": g.randrange(50)})
                self.plan.append({"op": "attempt", "actor": actor, "h": -1, "kind": g.choice(["closure", "sweep_M", "sweep_R", "sweep_U"]), "arg": g.randrange(50)})
            p = g.choice(sh.all()) if g.random() < 0.8 else "/"
            deep = sorted(q for q in sh.groups() if q != "/" and any(x.startswith(q.rstrip("/") + "/") and x[len(q) + 1 :].count("/") >= 1 for x in sh.nodes))
            if deep and g.random() < 0.4:
                p = g.choice(deep)  # a group with descendants two or more levels down
            flags = g.choice(FLAG_SETS + [[]]) if g.random() < 0.7 else ["local_only"]
            if ms.pairs() and g.random() < 0.25:
                # a read-only grant on a group above a node that carries metadata, then every
                # mutation once: a refused operation must not have destroyed the metadata first
                p0, _ = g.choice(ms.pairs())
                p = T.Shadow.parent(p0)
                if g.random() < 0.3:
                    p = T.Shadow.parent(p)
                flags = sorted(set(g.choice(FLAG_SETS + [[]])) | {"read_only"})
                self.plan = [{"op": "attempt", "actor": actor, "h": -1, "kind": g.choice(["sweep_M", "sweep_M", "g_delitem", "g_move"]), "arg": g.randrange(50)}]
            dsets = sorted(q for q, kd in sh.nodes.items() if kd == "d")
            if dsets and g.random() < 0.15:
                # every flag combination that contains read_only, directly on a dataset, then every
                # mutation once (the dataset methods only exist there: resize, write_direct, ...)
                p = g.choice(dsets)
                flags = sorted(set(g.choice(FLAG_SETS + [[]])) | {"read_only"})
                self.plan = [{"op": "attempt", "actor": actor, "h": -1, "kind": "sweep_M", "arg": g.randrange(50)}]
            return {"op": "grant", "actor": actor, "path": p, "flags": flags, "container": g.random() < 0.5}
        if roll < 0.5:
            self.n[actor] += 1
            return {"op": "nav", "actor": actor, "h": g.randrange(1000), "prim": g.choice(NAV_PRIMS), "arg": g.randrange(50)}
        grp = g.choice(["M", "M", "R", "R", "U", "C"])
        if grp != "C" and g.random() < 0.5:
            kind = "sweep_" + grp
        else:
            kind = "closure" if grp == "C" else g.choice(MUTATING if grp == "M" else READING if grp == "R" else UPWARD)
        return {"op": "attempt", "actor": actor, "h": g.randrange(1000), "kind": kind, "arg": g.randrange(50)}


def op_ro_window(w, op):
    """The IH5 drivers are put into the state between commit_patch and create_patch, in which
    writes are refused; every mutation issued then must be refused without any effect;
    afterwards a new patch is created and the long-lived containers keep their in-memory
    index. (The plain HDF5 driver has no such state and sits the window out.)"""
    ih5 = [dv for dv in w.drv if dv.kind != "h5"]
    for dv in ih5:
        dv.raw.commit_patch()
    w.count("readonly_window")
    try:
        before = [V.dump_tree(dv.raw)[0] for dv in ih5]
        for sub in op.get("ops", []):
            k = sub["op"]
            if k == "require_group" and w.ref_kind(w.norm(T.Shadow.join(sub["base"], sub["path"]))) == "g":
                continue  # not a write
            w.probe("mutations_in_readonly_window")
            for dv, b in zip(ih5, before):
                try:
                    if k in OWNER_DATA_OPS:
                        T.apply_data_op(dv.mc, sub)
                    elif k == "meta_set":
                        dv.mc[sub["path"]].meta[sub["schema"]] = VS.instance(sub["schema"], tuple(sub["version"]), sub["idx"])
                    elif k == "meta_del":
                        del dv.mc[sub["path"]].meta[sub["schema"]]
                    else:
                        raise env.HarnessError(k)
                    ok = True
                except env.HarnessError:
                    raise
                except Exception:
                    ok = False
                after = V.dump_tree(dv.raw)[0]
                if after != b:
                    raise Violation("C06", "refused-op-had-effect", f"[{dv.kind}] {k} while the record has no writable patch changed the container: {V.diff_dumps(b, after)}", shape="readonly-window")
                if ok:
                    raise Violation("C09", "write-accepted-while-readonly", f"[{dv.kind}] {k} {json.dumps(sub)[:120]} succeeded although the record has no writable patch")
    finally:
        for dv in ih5:
            dv.raw.create_patch()
    w.boundaries += 1
    return "ok"


def op_merge_check(w, op):
    """IH5 drivers: commit, merge the record into a single container and compare the merged
    container (user view, embedded files, metadata, TOC) with the live one (C17, C09)."""
    from pathlib import Path

    n = w.probes.get("merges", 0)
    want, _ = V.dump_tree(w.ref)
    for dv in w.drv:
        if dv.kind == "h5":
            continue
        dv.raw.commit_patch()
        target = os.path.join(dv.dir, f"merged{n}")
        try:
            out = dv.raw.merge_files(Path(target))
        except Exception as e:
            dv.raw.create_patch()
            raise Violation("C09", "merge-raised", f"[{dv.kind}] merge_files of the container's record raised {type(e).__name__}: {e}")
        dv.raw.create_patch()
        m_raw = w.cls[dv.kind](target, "r")
        try:
            mc = w.MC(m_raw)
            d, errs = V.dump_tree(mc)
            if errs or d != want:
                raise Violation("C09", "merged-user-view", f"[{dv.kind}] merged container shows another user tree: {errs[:2] or V.diff_dumps(want, d)}")
            tmp = Drv(dv.kind, dv.dir)
            tmp.raw, tmp.mc = m_raw, mc
            raw, objs = w.toc_oracle(tmp, "merged container")
            w.check_attached_set(tmp, objs, "merged container")
            w.check_packed(tmp, raw)
            for p in sorted(w.meta):
                w.check_meta_node(tmp, p, full=False)
        finally:
            m_raw.close()
    w.probe("merges")
    w.boundaries += 1
    w.count("merge")
    return "ok"


DONOR_NODES = ["df", "dg", "dg/inner", "dg/plain", "dg/sub"]


def donor_of(w, dv):
    """A second container on the same driver, with fixed content, that nodes are copied from."""
    from metador_core.packer.utils import pack_file

    if getattr(dv, "donor", None) is not None:
        return dv.donor
    fdir = os.path.join(w.scratch, "files")
    os.makedirs(fdir, exist_ok=True)
    blobs = {"df": b"donor-file-A\x00\x01", "dg/inner": b"donor inner bytes \xff\x00\x00"}
    raw = w.h5py.File(os.path.join(dv.dir, "donor.h5"), "w") if dv.kind == "h5" else w.cls[dv.kind](os.path.join(dv.dir, "donor"), "w")
    mc = w.MC(raw)
    mc.create_group("dg")
    mc.create_group("dg/sub")
    mc["dg/plain"] = 3
    for t, b in blobs.items():
        fp = os.path.join(fdir, "donor_" + t.replace("/", "_") + ".bin")
        with open(fp, "wb") as f:
            f.write(b)
        os.utime(fp, ns=(1_700_000_000_000_000_000, 1_700_000_000_000_000_000))
        base, name = ("/" + t).rsplit("/", 1)
        pack_file(mc[base or "/"], fp, target=name)
    mc["dg"].meta["verif.other"] = VS.instance("verif.other", (0, 1, 0), 7)
    mc["dg/sub"].meta["core.person"] = VS.instance("core.person", (0, 1, 0), 8)
    dv.donor = mc
    if not hasattr(w, "donor_model"):
        # what the donor holds, in the model's terms (taken from the first donor built)
        dm = {"packed": {"/" + t: b.hex() for t, b in blobs.items()}, "meta": {}}
        for q, names in (("/df", ["core.file"]), ("/dg", ["verif.other"]), ("/dg/inner", ["core.file"]), ("/dg/sub", ["core.person"])):
            for n in names:
                o = mc[q].meta.get(n)
                ref = o.Plugin.ref()
                dm["meta"].setdefault(q, {})[n] = {"name": n, "version": list(ref.version), "json": canon_json(o.json())}
        w.donor_model = dm
        pr = w.h5py.File(os.path.join(w.scratch, "donor_ref.h5"), "w")
        pr.create_group("dg")
        pr.create_group("dg/sub")
        pr["dg/plain"] = 3
        import numpy as np

        for t, b in blobs.items():
            pr[t] = np.void(b)
        w.donor_ref = pr
    return dv.donor


def op_xcont_copy(w, op):
    """Copy a node *object* of another container (same driver) into this one. The copy is an
    ordinary part of this container afterwards: its bytes, its metadata (and not metadata that
    happens to sit at the same path here), TOC links, schema and package records."""
    src = DONOR_NODES[op["which"] % len(DONOR_NODES)]
    dst = w.norm(op["dst"])
    for dv in w.drv:
        donor_of(w, dv)
    parent = T.Shadow.parent(dst)
    okr = True
    try:
        w.ref.copy(w.donor_ref[src], dst)
    except Exception:
        okr = False

    def fn(dv):
        dv.mc.copy(dv.donor[src], dst)

    res = w.all_apply(fn)
    ok = w.same_outcome(res, f"xcont_copy {src} -> {dst}")
    w.count("cross_container_copy")
    if ok != okr:
        # all drivers agree with each other but not with the plain tree: what the call left behind
        # is judged by the oracles (user view, embedded bytes and their metadata, TOC)
        w.probe("container_outcome_differs_from_plain:xcont_copy")
    if okr:
        pre = "/" + src
        for q, hx in w.donor_model["packed"].items():
            if q == pre or q.startswith(pre + "/"):
                w.packed[dst + q[len(pre):]] = hx
        for q, objs in w.donor_model["meta"].items():
            if q == pre or q.startswith(pre + "/"):
                w.meta.setdefault(dst + q[len(pre):], {}).update(json.loads(json.dumps(objs)))
                w.meta_ops += 1
    return "ok" if ok else "raise"


EXTRA_OPS.update({"xcont_copy": op_xcont_copy})
EXTRA_OPS.update({"ro_window": op_ro_window, "merge_check": op_merge_check, "pack": op_pack, "reserved": op_reserved, "grant": op_grant, "nav": op_nav, "attempt": op_attempt})
